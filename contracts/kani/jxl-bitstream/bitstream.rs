// Contracts for crates/jxl-bitstream/src/bitstream.rs (child module: sees the private fields).
//
// Data-structure invariant  wf(bs):  remaining_buf_bits <= 63, buf has no bits at or above
//                                     remaining_buf_bits other than stale copies of the next input bytes,
//                                     num_read_bits <= usize::MAX / 2.
// Abstract view            bits(bs): the low `remaining_buf_bits` bits of `buf` (LSB first) followed by
//                                     the bits of `bytes` (LSB first within each byte) -- 18181-1 section 9.
// Every reader primitive is specified against that view: value == the bits of the view, view' == view
// with exactly the consumed bits dropped, num_read_bits' == num_read_bits + consumed.
use super::*;

const MAXB: usize = 12;

/// bits of `buf` at or above `remaining_buf_bits` may be stale copies of the upcoming bytes (the 8-byte
/// fast path of `refill` ORs a whole word in and re-reads the part it did not account for), never
/// anything else: OR-ing the same bytes again must be idempotent.
pub(crate) fn wf(bs: &Bitstream<'_>) -> bool {
    if bs.remaining_buf_bits > 63 {
        return false;
    }
    let mut next = 0u64;
    let mut i = 0;
    while i < 8 {
        if i < bs.bytes.len() {
            next |= (bs.bytes[i] as u64) << (8 * i);
        }
        i += 1;
    }
    let hi = (bs.buf >> bs.remaining_buf_bits) << bs.remaining_buf_bits;
    hi & !(next << bs.remaining_buf_bits) == 0
}

pub(crate) fn any_wf<'a>(bytes: &'a [u8]) -> Bitstream<'a> {
    let remaining_buf_bits: usize = kani::any();
    let buf: u64 = kani::any();
    let num_read_bits: usize = kani::any();
    kani::assume(num_read_bits <= usize::MAX / 2);
    let bs = Bitstream { bytes, buf, num_read_bits, remaining_buf_bits };
    kani::assume(wf(&bs));
    bs
}

/// Snapshot of the abstract view.
#[derive(Clone, Copy)]
pub(crate) struct View<'a> {
    buf: u64,
    rem: usize,
    bytes: &'a [u8],
}

impl<'a> View<'a> {
    pub(crate) fn of(bs: &Bitstream<'a>) -> Self {
        View { buf: bs.buf, rem: bs.remaining_buf_bits, bytes: bs.bytes }
    }
    pub(crate) fn total(&self) -> usize {
        self.rem + self.bytes.len() * 8
    }
    /// bit i of the abstract sequence (precondition i < total)
    pub(crate) fn bit(&self, i: usize) -> u32 {
        if i < self.rem {
            ((self.buf >> i) & 1) as u32
        } else {
            let j = i - self.rem;
            ((self.bytes[j / 8] >> (j % 8)) & 1) as u32
        }
    }
    /// the n (<= 32) bits starting at `at`, LSB first -- u(n) of the standard
    pub(crate) fn u(&self, at: usize, n: usize) -> u32 {
        let mut v = 0u32;
        let mut i = 0;
        while i < n {
            v |= self.bit(at + i) << i;
            i += 1;
        }
        v
    }
}

/// view(after) == view(before) with `consumed` bits dropped -- checked at one symbolic position,
/// i.e. for all positions.
fn assert_view_advanced(before: &View<'_>, after: &View<'_>, consumed: usize) {
    assert!(after.total() + consumed == before.total(), "[C14,C11,C04] exactly the decoded bits are consumed");
    let i: usize = kani::any();
    kani::assume(i < after.total());
    assert!(after.bit(i) == before.bit(i + consumed), "[C14,C11,C04] unread bits are preserved in order");
}

// ------------------------------------------------------------------------------------------------
// refill: the unsafe from_raw_parts path and the slow path keep the view and establish the fill level
// ------------------------------------------------------------------------------------------------
#[kani::proof]
#[kani::unwind(9)]
fn refill_contract() {
    let data: [u8; 17] = kani::any();
    let len: usize = kani::any();
    kani::assume(len <= 17);
    let mut bs = any_wf(&data[..len]);
    let before = View::of(&bs);
    let nrb = bs.num_read_bits;
    bs.refill();
    let after = View::of(&bs);
    assert!(wf(&bs), "[C01,C02] refill keeps the invariant");
    assert!(bs.num_read_bits == nrb);
    assert!(bs.remaining_buf_bits >= 56 || bs.bytes.is_empty(), "[C14,C11] buffer is filled to >= 56 bits unless input is exhausted");
    assert_view_advanced(&before, &after, 0);
    kani::cover!(len >= 8 && bs.remaining_buf_bits >= 56);
    kani::cover!(len < 8 && bs.bytes.is_empty());
}

// ------------------------------------------------------------------------------------------------
// peek_bits / consume_bits / read_bits
// ------------------------------------------------------------------------------------------------
#[kani::proof]
#[kani::unwind(34)]
fn read_bits_contract() {
    let data: [u8; MAXB] = kani::any();
    let len: usize = kani::any();
    kani::assume(len <= MAXB);
    let mut bs = any_wf(&data[..len]);
    let n: usize = kani::any();
    kani::assume(n <= 32);
    let before = View::of(&bs);
    let nrb = bs.num_read_bits;
    let r = bs.read_bits(n);
    assert!(wf(&bs), "[C01] invariant kept");
    match &r {
        Ok(v) => {
            assert!(n <= before.total(), "[C11] success only when the bits exist");
            assert!(*v == before.u(0, n), "[C14,C04] read_bits(n) returns u(n)");
            assert!(bs.num_read_bits == nrb + n, "[C14] bit position advances by n");
            assert_view_advanced(&before, &View::of(&bs), n);
        }
        Err(e) => {
            // refill leaves >= 56 bits buffered unless the input is exhausted, n <= 32
            assert!(n > before.total(), "[C11] failure only when the stream is too short");
            assert!(e.unexpected_eof(), "[C11] running out of data is reported as unexpected-eof");
            assert!(bs.num_read_bits == nrb, "[C11] a failed read does not advance the position");
            assert_view_advanced(&before, &View::of(&bs), 0);
        }
    }
    kani::cover!(r.is_ok() && n == 32);
    kani::cover!(r.is_err());
}

#[kani::proof]
#[kani::unwind(9)]
fn consume_bits_contract() {
    let data: [u8; 9] = kani::any();
    let mut bs = any_wf(&data);
    let n: usize = kani::any();
    let before = View::of(&bs);
    let nrb = bs.num_read_bits;
    kani::assume(n <= usize::MAX / 2);
    let r = bs.consume_bits(n);
    match &r {
        Ok(()) => {
            assert!(n <= before.rem);
            assert!(wf(&bs));
            assert!(bs.num_read_bits == nrb + n, "[C14]");
            assert_view_advanced(&before, &View::of(&bs), n);
        }
        Err(e) => {
            assert!(n > before.rem);
            assert!(e.unexpected_eof(), "[C11]");
            assert!(bs.num_read_bits == nrb && bs.buf == before.buf && bs.remaining_buf_bits == before.rem, "[C11] failed consume changes nothing");
        }
    }
    kani::cover!(r.is_ok());
    kani::cover!(r.is_err());
}

// the const-generic twins must obey the same contract (they are the ones an optimised call site uses)
fn consume_bits_const_contract_for<const N: usize>() {
    let data: [u8; 9] = kani::any();
    let mut bs = any_wf(&data);
    let before = View::of(&bs);
    let nrb = bs.num_read_bits;
    let peeked = bs.peek_bits_prefilled_const::<N>();
    let r = bs.consume_bits_const::<N>();
    match &r {
        Ok(()) => {
            assert!(N <= before.rem);
            assert!(wf(&bs));
            assert!(peeked == before.u(0, N), "[C14,C04] peek_bits_prefilled_const::<N> returns u(N) of the buffered bits");
            assert!(bs.num_read_bits == nrb + N, "[C14] bit position advances by N");
            assert_view_advanced(&before, &View::of(&bs), N);
        }
        Err(e) => {
            assert!(N > before.rem);
            assert!(e.unexpected_eof(), "[C11]");
            assert!(bs.num_read_bits == nrb && bs.buf == before.buf && bs.remaining_buf_bits == before.rem, "[C11] failed consume_bits_const changes nothing (position included)");
        }
    }
    kani::cover!(r.is_ok());
    kani::cover!(r.is_err());
}

#[kani::proof]
#[kani::unwind(34)]
fn consume_bits_const_contract() {
    consume_bits_const_contract_for::<1>();
    consume_bits_const_contract_for::<16>();
    consume_bits_const_contract_for::<32>();
}

// ------------------------------------------------------------------------------------------------
// skip_bits
// ------------------------------------------------------------------------------------------------
#[kani::proof]
#[kani::unwind(9)]
fn skip_bits_contract() {
    let data: [u8; 20] = kani::any();
    let len: usize = kani::any();
    kani::assume(len <= 20);
    let mut bs = any_wf(&data[..len]);
    let n: usize = kani::any();
    kani::assume(n <= usize::MAX / 4);
    let before = View::of(&bs);
    let nrb = bs.num_read_bits;
    let r = bs.skip_bits(n);
    assert!(wf(&bs), "[C01] invariant kept");
    match &r {
        Ok(()) => {
            assert!(n <= before.total(), "[C11]");
            assert!(bs.num_read_bits == nrb + n, "[C14] skip advances the position by n");
            assert_view_advanced(&before, &View::of(&bs), n);
        }
        Err(e) => {
            assert!(n > before.total(), "[C11] skip fails only past the end of data");
            assert!(e.unexpected_eof(), "[C11]");
        }
    }
    kani::cover!(r.is_ok() && n > 64);
    kani::cover!(r.is_err());
}

// ------------------------------------------------------------------------------------------------
// zero_pad_to_byte
// ------------------------------------------------------------------------------------------------
#[kani::proof]
#[kani::unwind(10)]
fn zero_pad_contract() {
    let data: [u8; 9] = kani::any();
    let len: usize = kani::any();
    kani::assume(len <= 9);
    let mut bs = any_wf(&data[..len]);
    let before = View::of(&bs);
    let nrb = bs.num_read_bits;
    let pad = (8 - nrb % 8) % 8;
    let r = bs.zero_pad_to_byte();
    match &r {
        Ok(()) => {
            assert!(bs.num_read_bits % 8 == 0 && bs.num_read_bits == nrb + pad, "[C14] position is rounded up to a byte");
            assert!(before.u(0, pad) == 0, "[C14] padding bits were zero");
            assert_view_advanced(&before, &View::of(&bs), pad);
        }
        Err(Error::NonZeroPadding) => {
            assert!(pad <= before.total() && before.u(0, pad) != 0, "[C14] NonZeroPadding only for non-zero padding");
        }
        Err(e) => {
            assert!(e.unexpected_eof() && pad > before.total(), "[C11]");
        }
    }
    kani::cover!(r.is_ok() && pad == 7);
    kani::cover!(matches!(r, Err(Error::NonZeroPadding)));
}

// ------------------------------------------------------------------------------------------------
// U32: 18181-1 9.2.2  -- selector u(2), then either a constant or offset + u(n)
// ------------------------------------------------------------------------------------------------
fn any_spec() -> (U32Specifier, bool, u32, usize) {
    let is_const: bool = kani::any();
    let c: u32 = kani::any();
    let n: usize = kani::any();
    kani::assume(n <= 32);
    if is_const {
        (U32Specifier::Constant(c), true, c, 0)
    } else {
        (U32Specifier::BitsOffset(c, n), false, c, n)
    }
}

#[kani::proof]
#[kani::unwind(34)]
fn read_u32_contract() {
    let data: [u8; MAXB] = kani::any();
    let len: usize = kani::any();
    kani::assume(len <= MAXB);
    let mut bs = any_wf(&data[..len]);
    let (d0, k0, c0, n0) = any_spec();
    let (d1, k1, c1, n1) = any_spec();
    let (d2, k2, c2, n2) = any_spec();
    let (d3, k3, c3, n3) = any_spec();
    let before = View::of(&bs);
    let nrb = bs.num_read_bits;
    let r = bs.read_u32(d0, d1, d2, d3);
    // specification, evaluated on the abstract view
    let total = before.total();
    if total < 2 {
        assert!(matches!(&r, Err(e) if e.unexpected_eof()), "[C11]");
        return;
    }
    let sel = before.u(0, 2);
    let (k, c, n) = match sel { 0 => (k0, c0, n0), 1 => (k1, c1, n1), 2 => (k2, c2, n2), _ => (k3, c3, n3) };
    let need = 2 + if k { 0 } else { n };
    match &r {
        Ok(v) => {
            assert!(need <= total, "[C11]");
            let expect = if k { c } else { c.wrapping_add(before.u(2, n)) };
            assert!(*v == expect, "[C14] U32 value = constant or offset + u(n) of the selected distribution");
            assert!(bs.num_read_bits == nrb + need, "[C14] U32 consumes 2 + n bits");
            assert_view_advanced(&before, &View::of(&bs), need);
        }
        Err(e) => {
            assert!(need > total && e.unexpected_eof(), "[C11] U32 fails only on a short stream, as unexpected-eof");
        }
    }
    kani::cover!(r.is_ok() && sel == 3 && !k && n == 32);
    kani::cover!(r.is_ok() && k);
    kani::cover!(r.is_err());
}

// ------------------------------------------------------------------------------------------------
// U64: 18181-1 9.2.3
// ------------------------------------------------------------------------------------------------
/// The standard's decoding procedure on the abstract view: Some((value, bits consumed)) or None if
/// the view ends first.
fn spec_u64(v: &View<'_>) -> Option<(u64, usize)> {
    let total = v.total();
    if total < 2 { return None; }
    match v.u(0, 2) {
        0 => Some((0, 2)),
        1 => if total < 6 { None } else { Some((1 + v.u(2, 4) as u64, 6)) },
        2 => if total < 10 { None } else { Some((17 + v.u(2, 8) as u64, 10)) },
        _ => {
            if total < 14 { return None; }
            let mut value = v.u(2, 12) as u64;
            let mut pos = 14usize;
            let mut shift = 12u32;
            loop {
                if pos + 1 > total { return None; }
                let more = v.bit(pos);
                pos += 1;
                if more == 0 { break; }
                if shift == 60 {
                    if pos + 4 > total { return None; }
                    value |= (v.u(pos, 4) as u64) << 60;
                    pos += 4;
                    break;
                }
                if pos + 8 > total { return None; }
                value |= (v.u(pos, 8) as u64) << shift;
                pos += 8;
                shift += 8;
            }
            Some((value, pos))
        }
    }
}

#[kani::proof]
#[kani::unwind(14)]
fn read_u64_contract() {
    // a fresh reader positioned at a symbolic bit offset (0..=7) of a symbolic buffer: the state every
    // header parser is in when it calls U64. Longest form is 2+12+6*(1+8)+1+4 = 73 bits.
    let data: [u8; 11] = kani::any();
    let len: usize = kani::any();
    kani::assume(len <= 11);
    let mut bs = Bitstream::new(&data[..len]);
    let off: usize = kani::any();
    kani::assume(off <= 7);
    if bs.skip_bits(off).is_err() { return; }
    let before = View::of(&bs);
    let nrb = bs.num_read_bits;
    let r = bs.read_u64();
    match (spec_u64(&before), &r) {
        (Some((v, used)), Ok(x)) => {
            assert!(*x == v, "[C14] U64 value as defined by the standard (all four forms incl. the 64-bit one)");
            assert!(bs.num_read_bits == nrb + used, "[C14] U64 consumes exactly the bits of its form");
            assert_view_advanced(&before, &View::of(&bs), used);
        }
        (None, Err(e)) => assert!(e.unexpected_eof(), "[C11] short stream is unexpected-eof"),
        (Some(_), Err(_)) => assert!(false, "[C11,C14] U64 failed although the stream holds a complete value"),
        (None, Ok(_)) => assert!(false, "[C11] U64 succeeded on a truncated value"),
    }
    kani::cover!(matches!(&r, Ok(x) if *x > (1u64 << 60)));
    kani::cover!(r.is_err());
}

// ------------------------------------------------------------------------------------------------
// Bool, F16, Enum
// ------------------------------------------------------------------------------------------------
#[kani::proof]
#[kani::unwind(9)]
fn read_bool_contract() {
    let data: [u8; 9] = kani::any();
    let len: usize = kani::any();
    kani::assume(len <= 9);
    let mut bs = any_wf(&data[..len]);
    let before = View::of(&bs);
    let nrb = bs.num_read_bits;
    match bs.read_bool() {
        Ok(b) => {
            assert!(b == (before.bit(0) == 1), "[C14]");
            assert!(bs.num_read_bits == nrb + 1, "[C14]");
            assert_view_advanced(&before, &View::of(&bs), 1);
        }
        Err(e) => assert!(before.total() == 0 && e.unexpected_eof(), "[C11]"),
    }
}

/// IEEE 754 binary16 value as exact f32 arithmetic: (1024+m) * 2^(e-25) or m * 2^-24.
fn spec_f16(code: u32) -> Option<f32> {
    let s = (code >> 15) & 1;
    let e = (code >> 10) & 0x1f;
    let m = code & 0x3ff;
    if e == 0x1f { return None; }
    let pow2 = |k: i32| f32::from_bits(((k + 127) as u32) << 23);
    let mag = if e == 0 { (m as f32) * pow2(-24) } else { ((1024 + m) as f32) * pow2(e as i32 - 25) };
    Some(if s == 1 { -mag } else { mag })
}

#[kani::proof]
#[kani::unwind(18)]
fn read_f16_contract() {
    let data: [u8; 9] = kani::any();
    let len: usize = kani::any();
    kani::assume(len <= 9);
    let mut bs = any_wf(&data[..len]);
    let before = View::of(&bs);
    let nrb = bs.num_read_bits;
    let r = bs.read_f16_as_f32();
    if before.total() < 16 {
        assert!(matches!(&r, Err(e) if e.unexpected_eof()), "[C11]");
        return;
    }
    let code = before.u(0, 16);
    match (spec_f16(code), &r) {
        (Some(s), Ok(v)) => {
            assert!(v.to_bits() == s.to_bits(), "[C14] F16 converts to the exactly equal f32 (all 63488 finite codes, signed zero, subnormals)");
            assert!(bs.num_read_bits == nrb + 16, "[C14]");
            assert_view_advanced(&before, &View::of(&bs), 16);
        }
        (None, Err(Error::InvalidFloat)) => {}
        _ => assert!(false, "[C14] F16: NaN/Inf are InvalidFloat, everything else is a value"),
    }
    kani::cover!(matches!(&r, Ok(v) if *v < 0.0 && *v > -0.0001));
    kani::cover!(matches!(&r, Err(Error::InvalidFloat)));
}

#[derive(Clone, Copy, PartialEq, Eq)]
struct AnyEnum(u32);
impl TryFrom<u32> for AnyEnum {
    type Error = ();
    fn try_from(v: u32) -> Result<Self, ()> {
        // an enum with the values {0, 1, 2, 5, 18, 40}
        if v == 0 || v == 1 || v == 2 || v == 5 || v == 18 || v == 40 { Ok(AnyEnum(v)) } else { Err(()) }
    }
}

#[kani::proof]
#[kani::unwind(9)]
fn read_enum_contract() {
    let data: [u8; 9] = kani::any();
    let len: usize = kani::any();
    kani::assume(len <= 9);
    let mut bs = any_wf(&data[..len]);
    let before = View::of(&bs);
    let nrb = bs.num_read_bits;
    let r = bs.read_enum::<AnyEnum>();
    let total = before.total();
    if total < 2 { assert!(matches!(&r, Err(e) if e.unexpected_eof()), "[C11]"); return; }
    // Enum(): U32(0, 1, 2 + u(4), 18 + u(6))
    let (need, val) = match before.u(0, 2) {
        0 => (2, 0),
        1 => (2, 1),
        2 => (6, if total >= 6 { 2 + before.u(2, 4) } else { 0 }),
        _ => (8, if total >= 8 { 18 + before.u(2, 6) } else { 0 }),
    };
    if need > total { assert!(matches!(&r, Err(e) if e.unexpected_eof()), "[C11]"); return; }
    match &r {
        Ok(e) => {
            assert!(e.0 == val, "[C14] Enum value");
            assert!(bs.num_read_bits == nrb + need, "[C14]");
            assert_view_advanced(&before, &View::of(&bs), need);
        }
        Err(Error::InvalidEnum { value, .. }) => {
            assert!(*value == val && AnyEnum::try_from(val).is_err(), "[C14] InvalidEnum exactly for unknown values");
        }
        Err(_) => assert!(false, "[C14,C11] unexpected error kind from read_enum"),
    }
    kani::cover!(matches!(&r, Ok(e) if e.0 == 40));
    kani::cover!(matches!(&r, Err(Error::InvalidEnum { .. })));
}

// ------------------------------------------------------------------------------------------------
// C11 prefix lemma, relational: reading from a prefix of the data either agrees with reading from the
// whole data or reports unexpected-eof. Instantiated for the composite readers.
// ------------------------------------------------------------------------------------------------
#[kani::proof]
#[kani::unwind(14)]
fn prefix_lemma_u64() {
    let data: [u8; 10] = kani::any();
    let len: usize = kani::any();
    let cut: usize = kani::any();
    kani::assume(len <= 10 && cut <= len);
    let mut full = Bitstream::new(&data[..len]);
    let mut pre = Bitstream::new(&data[..cut]);
    let rf = full.read_u64();
    let rp = pre.read_u64();
    match (&rp, &rf) {
        (Ok(a), Ok(b)) => assert!(a == b && pre.num_read_bits == full.num_read_bits, "[C11] a prefix never changes a value"),
        (Err(e), _) => assert!(e.unexpected_eof(), "[C11] a prefix can only fail with unexpected-eof"),
        (Ok(_), Err(_)) => assert!(false, "[C11] prefix succeeded where the full stream fails"),
    }
    kani::cover!(rp.is_err() && rf.is_ok());
}

#[kani::proof]
fn canary() {
    let data: [u8; 9] = kani::any();
    let bs = any_wf(&data);
    assert!(bs.remaining_buf_bits != 13, "canary: must fail");
}
