// Contracts for crates/jxl-bitstream/src/lib.rs: UnpackSigned (18181-1 9.2.6).
// The contract itself is attached to the real functions as kani::ensures attributes (see registry:
// attrs) and is proved with proof_for_contract; the inverse lemma is proved over the packed form.
use super::*;

/// PackSigned of the standard (the encoder side): 2x for x >= 0, -2x - 1 for x < 0.
pub(crate) fn spec_pack_signed(v: i32) -> u32 {
    if v >= 0 { (v as u32) << 1 } else { (((-(v as i64)) as u32) << 1).wrapping_sub(1) }
}
pub(crate) fn spec_pack_signed_u64(v: i64) -> u64 {
    if v >= 0 { (v as u64) << 1 } else { (((-(v as i128)) as u64) << 1).wrapping_sub(1) }
}

#[kani::proof_for_contract(unpack_signed)]
fn unpack_signed_contract() {
    let x: u32 = kani::any();
    let r = unpack_signed(x);
    // same postcondition as the attached contract, restated so that a native replay can observe it
    assert!(if x & 1 == 0 { r >= 0 && (r as i64) == (x as i64) / 2 } else { r < 0 && (r as i64) == -((x as i64) + 1) / 2 },
        "[C04,C14,C01] UnpackSigned: even x -> x/2, odd x -> -(x+1)/2");
}

#[kani::proof_for_contract(unpack_signed_u64)]
fn unpack_signed_u64_contract() {
    let x: u64 = kani::any();
    let r = unpack_signed_u64(x);
    assert!(if x & 1 == 0 { r >= 0 && (r as i128) == (x as i128) / 2 } else { r < 0 && (r as i128) == -((x as i128) + 1) / 2 },
        "[C04,C14,C01] UnpackSigned (64-bit)");
}

#[kani::proof]
fn unpack_signed_inverts_pack() {
    let v: i32 = kani::any();
    assert!(unpack_signed(spec_pack_signed(v)) == v, "[C04,C14,C03] UnpackSigned(PackSigned(v)) == v for every i32");
    let w: i64 = kani::any();
    assert!(unpack_signed_u64(spec_pack_signed_u64(w)) == w, "[C04,C14] 64-bit UnpackSigned inverts PackSigned");
    let x: u32 = kani::any();
    assert!(spec_pack_signed(unpack_signed(x)) == x, "[C04,C14] UnpackSigned is a bijection");
}
