// Contracts for crates/jxl-bitstream/src/container/parse.rs (child module of parse.rs, grandchild of
// container.rs: sees the private fields of ContainerParser / DetectState / JxlpIndexState / ParseEvents).
//
// The container parser is a resumable state machine. The contract is an *inductive step*:
//
//   Inv(state)  /\  input buffer B  ==>  ParseEvents::next does not panic, returns exactly what
//   spec_step(abs(state), B) says (event, payload range, consumption, next state), and Inv(state').
//
// ContainerParser::new() satisfies Inv (harness `init_establishes_inv`), so by induction every history
// of feeds -- of any total length -- stays inside Inv and every event is the one the specification
// names. spec_step is an executable transcription of ISO/IEC 18181-2 section 9 (file signature, box
// header, jxlc / jxlp / brob semantics) and of the C10 property text; it works on an abstract state that
// forgets nothing observable.
//
// C09 (chunking independence: feed B at once == feed B[..k], then re-offer the unconsumed rest followed by
// B[k..]) is the one-step prefix lemma at the end, proved on spec_step and transferred to the parser by
// the step contracts.
//
// Findings made with these contracts (see the registry for the obligations):
//  * ContainerBoxHeader::parse returned InvalidBox for a size==1 header with 8..15 bytes buffered (fixed in
//    /repo 6a420b0; ct.box_header, ct.box_header_prefix and ct.step_box_header guard it).
//  * After Err(ValidationFailed) for a brob box of a reserved type, bytes_left has already been reduced by
//    4 while brotli_box_type is still None: the state leaves Inv and the next feed of >= 4 bytes computes
//    `*bytes_left -= 4` on a value < 4 (overflow panic in checked builds). Obligation ct.err_then_refeed.
use super::*;

// Box types are handled as big-endian u32 four-character codes in the specification (no array compares:
// `[u8; 4] == [u8; 4]` is a memcmp loop for CBMC).
type Fourcc = u32;
const JXLC: Fourcc = 0x6a786c63;
const JXLP: Fourcc = 0x6a786c70;
const BROB: Fourcc = 0x62726f62;
const JBRD: Fourcc = 0x6a627264;
fn fourcc(t: [u8; 4]) -> Fourcc {
    ((t[0] as u32) << 24) | ((t[1] as u32) << 16) | ((t[2] as u32) << 8) | (t[3] as u32)
}
fn fourcc_bytes(t: Fourcc) -> [u8; 4] {
    [(t >> 24) as u8, (t >> 16) as u8, (t >> 8) as u8, t as u8]
}
/// 18181-2 9.2: the signature box  00 00 00 0C 'J' 'X' 'L' ' ' 0D 0A 87 0A
const SPEC_CONTAINER_SIG: [u8; 12] = [0, 0, 0, 0x0c, 0x4a, 0x58, 0x4c, 0x20, 0x0d, 0x0a, 0x87, 0x0a];
/// 18181-1: a bare codestream starts with FF 0A
const SPEC_CODESTREAM_SIG: [u8; 2] = [0xff, 0x0a];

// ------------------------------------------------------------------------------------------------
// abstract state
// ------------------------------------------------------------------------------------------------
#[derive(Clone, Copy, PartialEq, Eq)]
#[repr(u8)]
enum Seq {
    Initial,
    SingleJxlc,
    Jxlp(u32),
    Finished,
}

// BitstreamKind as a number: 0 Unknown, 1 BareCodestream, 2 Container, 3 Invalid
fn kind_no(k: BitstreamKind) -> u8 {
    match k {
        BitstreamKind::Unknown => 0,
        BitstreamKind::BareCodestream => 1,
        BitstreamKind::Container => 2,
        BitstreamKind::Invalid => 3,
    }
}

#[derive(Clone, Copy, PartialEq, Eq)]
#[repr(u8)]
enum Ph {
    /// nothing recognised yet
    Sig,
    /// between boxes
    Hdr,
    /// inside a jxlp box, before its 4-byte index; `size` = payload size of the box incl. the index
    Idx { ty: Fourcc, size: Option<u64>, is_last: bool },
    /// inside a non-codestream box. `inner` = original type of a brob box once read.
    Aux { ty: Fourcc, size: Option<u64>, is_last: bool, inner: Option<Fourcc>, left: Option<usize> },
    /// delivering codestream bytes
    Code { kind: u8, left: Option<usize>, pending: bool },
}

#[derive(Clone, Copy, PartialEq, Eq)]
struct AState {
    ph: Ph,
    seq: Seq,
}

fn abs(p: &ContainerParser) -> AState {
    let ph = match &p.state {
        DetectState::WaitingSignature => Ph::Sig,
        DetectState::WaitingBoxHeader => Ph::Hdr,
        DetectState::WaitingJxlpIndex(h) => Ph::Idx { ty: fourcc(h.box_type().0), size: h.box_size(), is_last: h.is_last() },
        DetectState::InAuxBox { header, brotli_box_type, bytes_left } => Ph::Aux {
            ty: fourcc(header.box_type().0),
            size: header.box_size(),
            is_last: header.is_last(),
            inner: match brotli_box_type { Some(t) => Some(fourcc(t.0)), None => None },
            left: *bytes_left,
        },
        DetectState::InCodestream { kind, bytes_left, pending_no_more_aux_box } => {
            Ph::Code { kind: kind_no(*kind), left: *bytes_left, pending: *pending_no_more_aux_box }
        }
    };
    let seq = match p.jxlp_index_state {
        JxlpIndexState::Initial => Seq::Initial,
        JxlpIndexState::SingleJxlc => Seq::SingleJxlc,
        JxlpIndexState::Jxlp(i) => Seq::Jxlp(i),
        JxlpIndexState::JxlpFinished => Seq::Finished,
    };
    AState { ph, seq }
}

/// 18181-2 9.3 (brob): the compressed box type shall not be 'brob' and shall not start with 'jxl'.
/// jxl-oxide additionally refuses 'jbrd' (its error text says so); the spec follows the code there.
fn reserved_for_brob(t: Fourcc) -> bool {
    (t >> 8) == 0x6a786c || t == BROB || t == JBRD
}

// ------------------------------------------------------------------------------------------------
// Inv: the states reachable from ContainerParser::new() (derived from the transitions of emit_single)
// ------------------------------------------------------------------------------------------------
fn inv_abs(s: &AState) -> bool {
    // partial-codestream counter: the index that was last accepted fits 31 bits
    let seq_idle = match s.seq {
        Seq::Jxlp(i) => i <= 0x7fff_ffff,
        _ => true,
    };
    match s.ph {
        Ph::Sig => s.seq == Seq::Initial,
        Ph::Hdr => seq_idle,
        Ph::Idx { ty, size, is_last } => {
            // header of a jxlp box that has room for the index; the counter was already advanced
            ty == JXLP
                && is_last == size.is_none()
                && match size { Some(n) => n >= 4 && n <= u64::MAX - 16, None => true }
                && match s.seq { Seq::Jxlp(i) => i <= 0x8000_0000, _ => false }
        }
        Ph::Aux { ty, size, is_last, inner, left } => {
            seq_idle
                && ty != JXLC
                && ty != JXLP
                && is_last == size.is_none()
                && left.is_none() == size.is_none()
                && match size { Some(n) => n <= u64::MAX - 16, None => true }
                && if ty == BROB {
                    match inner {
                        // original type not read yet: nothing of the payload consumed, payload holds the type
                        None => match (size, left) {
                            (Some(n), Some(l)) => n >= 4 && l as u64 == n,
                            _ => true,
                        },
                        Some(t) => {
                            !reserved_for_brob(t)
                                && match (size, left) {
                                    (Some(n), Some(l)) => n >= 4 && l as u64 <= n - 4,
                                    _ => true,
                                }
                        }
                    }
                } else {
                    inner.is_none()
                        && match (size, left) {
                            (Some(n), Some(l)) => l as u64 <= n,
                            _ => true,
                        }
                }
        }
        Ph::Code { kind, left, pending } => match kind {
            // bare codestream / not a JPEG XL file: everything is codestream, no boxes ever
            1 | 3 => left.is_none() && s.seq == Seq::Initial,
            2 => {
                (!pending || left.is_none())
                    && match s.seq { Seq::Initial => false, Seq::Jxlp(i) => i <= 0x7fff_ffff, _ => true }
            }
            _ => false,
        },
    }
}

fn inv(p: &ContainerParser) -> bool {
    inv_abs(&abs(p))
}

// ------------------------------------------------------------------------------------------------
// symbolic states
// ------------------------------------------------------------------------------------------------
#[derive(Clone, Copy)]
struct Parts {
    ty: Fourcc,
    size: Option<u64>,
    inner: Option<Fourcc>,
    left: Option<usize>,
    kind: u8,
    pending: bool,
    jtag: u8,
    jidx: u32,
    pcb: usize,
}

fn any_parts() -> Parts {
    let p = Parts {
        ty: kani::any(),
        size: kani::any(),
        inner: kani::any(),
        left: kani::any(),
        kind: kani::any(),
        pending: kani::any(),
        jtag: kani::any(),
        jidx: kani::any(),
        pcb: kani::any(),
    };
    kani::assume(p.kind <= 3 && p.jtag <= 3);
    // every ContainerBoxHeader is a result of ContainerBoxHeader::parse (ct.box_header: payload <= 2^64-17)
    kani::assume(match p.size { Some(n) => n <= u64::MAX - 16, None => true });
    // ParseEvents: previous_consumed_bytes + remaining_input.len() == length of the slice given to
    // feed_bytes <= isize::MAX (parse.rs ParseEvents::new / next)
    kani::assume(p.pcb <= (isize::MAX as usize) - 64);
    p
}

/// A header value as the real parser makes it (the fields are private to box_header.rs).
fn mk_header(ty: Fourcc, size: Option<u64>) -> ContainerBoxHeader {
    let ty = fourcc_bytes(ty);
    let mut b = [0u8; 16];
    b[4] = ty[0];
    b[5] = ty[1];
    b[6] = ty[2];
    b[7] = ty[3];
    if let Some(n) = size {
        b[3] = 1;
        let be = (n + 16).to_be_bytes();
        b[8] = be[0];
        b[9] = be[1];
        b[10] = be[2];
        b[11] = be[3];
        b[12] = be[4];
        b[13] = be[5];
        b[14] = be[6];
        b[15] = be[7];
    }
    match ContainerBoxHeader::parse(&b) {
        Ok(HeaderParseResult::Done { header, .. }) => header,
        _ => panic!("ContainerBoxHeader::parse rejects a well-formed header"),
    }
}

/// `phase` is passed as a literal by every harness so that the initial discriminant is a constant and
/// CBMC does not explore the other arms of the first iteration.
fn build(phase: u8, p: &Parts) -> ContainerParser {
    let state = match phase {
        0 => DetectState::WaitingSignature,
        1 => DetectState::WaitingBoxHeader,
        2 => DetectState::WaitingJxlpIndex(mk_header(p.ty, p.size)),
        3 => DetectState::InAuxBox {
            header: mk_header(p.ty, p.size),
            brotli_box_type: match p.inner { Some(t) => Some(ContainerBoxType(fourcc_bytes(t))), None => None },
            bytes_left: p.left,
        },
        _ => DetectState::InCodestream {
            kind: match p.kind {
                0 => BitstreamKind::Unknown,
                1 => BitstreamKind::BareCodestream,
                2 => BitstreamKind::Container,
                _ => BitstreamKind::Invalid,
            },
            bytes_left: p.left,
            pending_no_more_aux_box: p.pending,
        },
    };
    let jxlp_index_state = match p.jtag {
        0 => JxlpIndexState::Initial,
        1 => JxlpIndexState::SingleJxlc,
        2 => JxlpIndexState::Jxlp(p.jidx),
        _ => JxlpIndexState::JxlpFinished,
    };
    ContainerParser { state, jxlp_index_state, previous_consumed_bytes: p.pcb }
}

/// The abstract state that `build(phase, p)` has -- written out so that its discriminant is a constant for
/// CBMC (abs() has to read DetectState's niche-encoded discriminant, which CBMC treats as symbolic).
fn abs_of_parts(phase: u8, p: &Parts) -> AState {
    let ph = match phase {
        0 => Ph::Sig,
        1 => Ph::Hdr,
        2 => Ph::Idx { ty: p.ty, size: p.size, is_last: p.size.is_none() },
        3 => Ph::Aux { ty: p.ty, size: p.size, is_last: p.size.is_none(), inner: p.inner, left: p.left },
        _ => Ph::Code { kind: p.kind, left: p.left, pending: p.pending },
    };
    let seq = match p.jtag {
        0 => Seq::Initial,
        1 => Seq::SingleJxlc,
        2 => Seq::Jxlp(p.jidx),
        _ => Seq::Finished,
    };
    AState { ph, seq }
}

/// Any abstract state in phase `phase` satisfying Inv (and the parts to build the real one from).
fn any_inv_abs(phase: u8) -> (Parts, AState) {
    let p = any_parts();
    let s = abs_of_parts(phase, &p);
    kani::assume(inv_abs(&s));
    (p, s)
}

/// Any parser state in phase `phase` satisfying Inv, with its abstraction.
fn any_inv_state(phase: u8) -> (AState, ContainerParser) {
    let (p, s) = any_inv_abs(phase);
    let parser = build(phase, &p);
    assert!(abs(&parser) == s, "harness self-check: abs(build(parts)) == abs_of_parts(parts)");
    (s, parser)
}

// ------------------------------------------------------------------------------------------------
// events, with payloads as (offset, length) into the fed buffer
// ------------------------------------------------------------------------------------------------
#[derive(Clone, Copy, PartialEq, Eq)]
#[repr(u8)]
enum Ev {
    Kind(u8),
    NoMoreAux,
    Start { ty: Fourcc, brotli: bool, last: bool },
    Data { ty: Fourcc, off: usize, len: usize },
    End { ty: Fourcc },
    Code { off: usize, len: usize },
}

/// offset of `payload` inside the allocation starting at `base`. An empty payload carries no bytes:
/// its position is taken to be `at` (where the spec puts it) so that a parser that returns `&[]` is fine.
fn off_of(base: *const u8, payload: &[u8], at: usize) -> usize {
    if payload.is_empty() {
        at
    } else {
        (payload.as_ptr() as usize).wrapping_sub(base as usize)
    }
}

fn observe(base: *const u8, e: &ParseEvent<'_>, at: usize) -> Ev {
    match e {
        ParseEvent::BitstreamKind(k) => Ev::Kind(kind_no(*k)),
        ParseEvent::NoMoreAuxBox => Ev::NoMoreAux,
        ParseEvent::AuxBoxStart { ty, brotli_compressed, last_box } => Ev::Start { ty: fourcc(ty.0), brotli: *brotli_compressed, last: *last_box },
        ParseEvent::AuxBoxData(ty, d) => Ev::Data { ty: fourcc(ty.0), off: off_of(base, d, at), len: d.len() },
        ParseEvent::AuxBoxEnd(ty) => Ev::End { ty: fourcc(ty.0) },
        ParseEvent::Codestream(d) => Ev::Code { off: off_of(base, d, at), len: d.len() },
    }
}

// ------------------------------------------------------------------------------------------------
// spec_step: one call of ParseEvents::next on abstract state `s` with `buf` still to be read
// ------------------------------------------------------------------------------------------------
#[derive(Clone, Copy, PartialEq, Eq)]
#[repr(u8)]
enum Out {
    /// nothing can be said yet (buffer exhausted, or the next syntax element is incomplete)
    Quiet,
    Event(Ev),
    /// ill-formed layout: 0 = InvalidBox, 1 = ValidationFailed
    Reject(u8),
}

struct SpecStep {
    out: Out,
    /// bytes of `buf` consumed by this step (for Reject: unspecified)
    consumed: usize,
    /// state afterwards (for Reject: unspecified)
    next: AState,
}

/// box header per 18181-2 9.1; None = incomplete. Some(Err) = declared size smaller than the header.
fn spec_header(b: &[u8]) -> Option<Result<(Fourcc, Option<u64>, usize), ()>> {
    if b.len() < 8 {
        return None;
    }
    let size = u32::from_be_bytes([b[0], b[1], b[2], b[3]]);
    let ty = fourcc([b[4], b[5], b[6], b[7]]);
    if size == 0 {
        Some(Ok((ty, None, 8)))
    } else if size == 1 {
        if b.len() < 16 {
            return None;
        }
        let large = u64::from_be_bytes([b[8], b[9], b[10], b[11], b[12], b[13], b[14], b[15]]);
        if large < 16 { Some(Err(())) } else { Some(Ok((ty, Some(large - 16), 16))) }
    } else if size < 8 {
        Some(Err(()))
    } else {
        Some(Ok((ty, Some(size as u64 - 8), 8)))
    }
}

fn is_prefix_of(a: &[u8], full: &[u8]) -> bool {
    if a.len() > full.len() {
        return false;
    }
    let mut i = 0;
    while i < a.len() {
        if a[i] != full[i] {
            return false;
        }
        i += 1;
    }
    true
}

fn quiet(s: AState, pos: usize) -> SpecStep {
    SpecStep { out: Out::Quiet, consumed: pos, next: s }
}
fn reject(s: AState, pos: usize, k: u8) -> SpecStep {
    SpecStep { out: Out::Reject(k), consumed: pos, next: s }
}
fn event(s: AState, pos: usize, e: Ev) -> SpecStep {
    SpecStep { out: Out::Event(e), consumed: pos, next: s }
}

/// One call of `next()`: the first event (or rejection) that state `s0` and the bytes of `buf` determine,
/// or Quiet when `buf` ends before the next syntax element is complete. Silent transitions (a jxlc/jxlp/brob
/// header, the jxlp index) are taken on the way; whatever they consumed stays consumed.
/// Nothing at all happens on an empty buffer -- not even events that need no bytes.
fn spec_step(s0: AState, buf: &[u8]) -> SpecStep {
    match s0.ph {
        Ph::Sig => spec_sig(s0, buf),
        Ph::Hdr => spec_hdr(s0, buf),
        Ph::Idx { .. } => spec_idx(s0, buf, 0),
        Ph::Aux { .. } => spec_aux(s0, buf, 0),
        Ph::Code { .. } => spec_code(s0, buf, 0),
    }
}

/// spec_step for a state that is known not to be Ph::Sig (cheaper for CBMC: no signature comparison loops).
fn spec_step_after_signature(s0: AState, buf: &[u8]) -> SpecStep {
    match s0.ph {
        Ph::Sig => reject(s0, 0, 0xfe),
        Ph::Hdr => spec_hdr(s0, buf),
        Ph::Idx { .. } => spec_idx(s0, buf, 0),
        Ph::Aux { .. } => spec_aux(s0, buf, 0),
        Ph::Code { .. } => spec_code(s0, buf, 0),
    }
}

/// 18181-2 9.1/9.2: FF 0A starts a bare codestream; the 12-byte signature box starts a container; a proper
/// prefix of either is undecided; anything else is not a JPEG XL file (delivered as an "invalid" codestream).
fn spec_sig(mut s: AState, buf: &[u8]) -> SpecStep {
    if buf.is_empty() {
        return quiet(s, 0);
    }
    if is_prefix_of(&SPEC_CODESTREAM_SIG, buf) {
        // the signature is part of the codestream: not consumed
        s.ph = Ph::Code { kind: 1, left: None, pending: true };
        event(s, 0, Ev::Kind(1))
    } else if is_prefix_of(&SPEC_CONTAINER_SIG, buf) {
        s.ph = Ph::Hdr;
        event(s, 12, Ev::Kind(2))
    } else if is_prefix_of(buf, &SPEC_CODESTREAM_SIG) || is_prefix_of(buf, &SPEC_CONTAINER_SIG) {
        quiet(s, 0)
    } else {
        s.ph = Ph::Code { kind: 3, left: None, pending: true };
        event(s, 0, Ev::Kind(3))
    }
}

fn spec_hdr(mut s: AState, buf: &[u8]) -> SpecStep {
    if buf.is_empty() {
        return quiet(s, 0);
    }
    let (ty, payload, hs) = match spec_header(buf) {
        None => return quiet(s, 0),
        // declared size smaller than the header; nothing consumed
        Some(Err(())) => return reject(s, 0, 0),
        Some(Ok(h)) => h,
    };
    let pos = hs;
    let undersized = match payload { Some(n) => n < 4, None => false };
    if ty == JXLC {
        // exactly one jxlc, and never together with jxlp
        if s.seq != Seq::Initial {
            return reject(s, pos, 0);
        }
        s.seq = Seq::SingleJxlc;
        let left = payload.map(|n| n as usize);
        s.ph = Ph::Code { kind: 2, left, pending: left.is_none() };
        spec_code(s, buf, pos)
    } else if ty == JXLP {
        // a jxlp payload starts with a 4-byte index
        if undersized {
            return reject(s, pos, 0);
        }
        s.seq = match s.seq {
            Seq::Initial => Seq::Jxlp(0),
            Seq::Jxlp(i) => Seq::Jxlp(i + 1),
            // jxlp after jxlc, jxlp after the final jxlp
            Seq::SingleJxlc | Seq::Finished => return reject(s, pos, 0),
        };
        s.ph = Ph::Idx { ty, size: payload, is_last: payload.is_none() };
        spec_idx(s, buf, pos)
    } else if ty == BROB {
        // a brob payload starts with the 4-byte original type; the box is announced once that is known
        if undersized {
            return reject(s, pos, 0);
        }
        s.ph = Ph::Aux { ty, size: payload, is_last: payload.is_none(), inner: None, left: payload.map(|n| n as usize) };
        spec_aux(s, buf, pos)
    } else {
        s.ph = Ph::Aux { ty, size: payload, is_last: payload.is_none(), inner: None, left: payload.map(|n| n as usize) };
        event(s, pos, Ev::Start { ty, brotli: false, last: payload.is_none() })
    }
}

fn spec_idx(mut s: AState, buf: &[u8], mut pos: usize) -> SpecStep {
    let rest = &buf[pos..];
    let size = match s.ph { Ph::Idx { size, .. } => size, _ => return reject(s, pos, 0xff) };
    if rest.len() < 4 {
        return quiet(s, pos);
    }
    // 18181-2 9.? jxlp: u32 BE, high bit = last partial box, low 31 bits = sequence number from 0
    let v = u32::from_be_bytes([rest[0], rest[1], rest[2], rest[3]]);
    pos += 4;
    let last = v >> 31 == 1;
    let index = v & 0x7fff_ffff;
    match s.seq {
        Seq::Jxlp(expected) if expected == index => {
            if last {
                s.seq = Seq::Finished;
            }
        }
        // out of order (Inv: seq is Jxlp(_) in this phase)
        _ => return reject(s, pos, 0),
    }
    let left = size.map(|n| (n - 4) as usize);
    s.ph = Ph::Code { kind: 2, left, pending: left.is_none() };
    spec_code(s, buf, pos)
}

fn spec_code(mut s: AState, buf: &[u8], pos: usize) -> SpecStep {
    let avail = buf.len() - pos;
    let (kind, left, pending) = match s.ph { Ph::Code { kind, left, pending } => (kind, left, pending), _ => return reject(s, pos, 0xff) };
    if avail == 0 {
        return quiet(s, pos);
    }
    if pending {
        // a codestream that runs to the end of the file: no further boxes
        s.ph = Ph::Code { kind, left, pending: false };
        return event(s, pos, Ev::NoMoreAux);
    }
    match left {
        None => event(s, pos + avail, Ev::Code { off: pos, len: avail }),
        Some(n) => {
            let take = if n < avail { n } else { avail };
            s.ph = if avail >= n { Ph::Hdr } else { Ph::Code { kind, left: Some(n - take), pending } };
            event(s, pos + take, Ev::Code { off: pos, len: take })
        }
    }
}

fn spec_aux(mut s: AState, buf: &[u8], mut pos: usize) -> SpecStep {
    let rest = &buf[pos..];
    let (ty, size, is_last, inner, left) = match s.ph {
        Ph::Aux { ty, size, is_last, inner, left } => (ty, size, is_last, inner, left),
        _ => return reject(s, pos, 0xff),
    };
    if rest.is_empty() {
        return quiet(s, pos);
    }
    if ty == BROB && inner.is_none() {
        if rest.len() < 4 {
            return quiet(s, pos);
        }
        let t = fourcc([rest[0], rest[1], rest[2], rest[3]]);
        pos += 4;
        if reserved_for_brob(t) {
            return reject(s, pos, 1);
        }
        let left = left.map(|l| l - 4);
        s.ph = Ph::Aux { ty, size, is_last, inner: Some(t), left };
        return event(s, pos, Ev::Start { ty: t, brotli: true, last: left.is_none() });
    }
    let ety = match inner { Some(t) => t, None => ty };
    match left {
        Some(0) => {
            s.ph = Ph::Hdr;
            event(s, pos, Ev::End { ty: ety })
        }
        Some(n) => {
            let take = if n < rest.len() { n } else { rest.len() };
            s.ph = Ph::Aux { ty, size, is_last, inner, left: Some(n - take) };
            event(s, pos + take, Ev::Data { ty: ety, off: pos, len: take })
        }
        None => event(s, pos + rest.len(), Ev::Data { ty: ety, off: pos, len: rest.len() }),
    }
}

// ------------------------------------------------------------------------------------------------
// step contract
// ------------------------------------------------------------------------------------------------
const MAXB: usize = 24;

/// What a run of step_contract came across (for kani::cover! in the harnesses).
#[derive(Clone, Copy)]
struct Seen {
    event: bool,
    quiet: bool,
    error: bool,
}

/// Which part of (state x input) a harness covers. Everything here is a literal at the call site, so
/// CBMC's symbolic execution follows only the arms of emit_single that the case can reach.
#[derive(Clone, Copy)]
struct Case {
    /// 0 WaitingSignature, 1 WaitingBoxHeader, 2 WaitingJxlpIndex, 3 InAuxBox, 4 InCodestream
    phase: u8,
    /// InAuxBox: the current box is not a brob box
    plain_aux: bool,
    /// the buffer holds exactly this many bytes (None: any length 0..=MAXB)
    exact_len: Option<usize>,
}

/// One `next()` from any Inv state of the case, on any buffer of <= MAXB bytes.
fn step_contract(case: Case) -> Seen {
    let data: [u8; MAXB] = kani::any();
    let len: usize = match case.exact_len {
        Some(n) => n,
        None => kani::any(),
    };
    kani::assume(len <= MAXB);
    let buf = &data[..len];
    let base = data.as_ptr();

    let (before, mut parser) = any_inv_state(case.phase);
    if case.plain_aux {
        kani::assume(!matches!(before.ph, Ph::Aux { ty: BROB, .. }));
    }
    let pcb0 = parser.previous_consumed_bytes;
    let finished0: bool = kani::any();

    // a ParseEvents value in the middle of a feed: `buf` is what remains of the fed slice
    let mut it = ParseEvents { inner: &mut parser, remaining_input: buf, finished: finished0 };
    let r = it.next();
    let rem_len = it.remaining_input.len();
    let rem_ptr = it.remaining_input.as_ptr();
    let finished1 = it.finished;
    let pcb1 = parser.previous_consumed_bytes;
    let after = abs(&parser);

    // outcome classes for the vacuity guards of the individual harnesses
    let seen = Seen {
        event: matches!(&r, Some(Ok(_))),
        quiet: r.is_none() && !finished0,
        error: matches!(&r, Some(Err(_))),
    };

    if finished0 {
        assert!(r.is_none() && after == before && pcb1 == pcb0 && rem_len == len && finished1,
            "[C10,C01] a finished event iterator stays finished and changes nothing");
        return seen;
    }

    // bookkeeping that holds whatever the outcome
    assert!(rem_len <= len, "[C10,C01] the parser only moves forward in the buffer");
    let consumed = len - rem_len;
    assert!(pcb1 == pcb0 + consumed, "[C10,C09] previous_consumed_bytes grows by exactly the bytes taken from the buffer");
    if rem_len > 0 {
        assert!(rem_ptr as usize == (base as usize) + consumed, "[C10,C09] what remains is the unread tail of the fed buffer");
    }

    let spec = spec_step(before, buf);
    match (&r, spec.out) {
        (None, Out::Quiet) => {
            assert!(consumed == spec.consumed, "[C10,C09] an incomplete syntax element is left unconsumed for re-offering");
            assert!(after == spec.next, "[C10,C09] waiting for data does not change the state");
            assert!(finished1 == (rem_len == 0), "[C10] the iterator finishes exactly when the buffer is used up");
        }
        (Some(Ok(e)), Out::Event(se)) => {
            let at = match se { Ev::Data { off, .. } | Ev::Code { off, .. } => off, _ => 0 };
            let ev = observe(base, e, at);
            match (ev, se) {
                (Ev::Kind(a), Ev::Kind(b)) => assert!(a == b, "[C10] bitstream kind: FF 0A = bare codestream, signature box = container, anything else = invalid"),
                (Ev::NoMoreAux, Ev::NoMoreAux) => {}
                (Ev::Start { ty: a, brotli: ab, last: al }, Ev::Start { ty: b, brotli: bb, last: bl }) => {
                    assert!(a == b, "[C10] aux box is announced with its (original) type");
                    assert!(ab == bb, "[C10] brotli flag set exactly for brob boxes");
                    assert!(al == bl, "[C10] last_box exactly for a box that runs to end of file");
                }
                (Ev::Data { ty: a, off: ao, len: al }, Ev::Data { ty: b, off: bo, len: bl }) => {
                    assert!(a == b, "[C10] aux payload carries the type of its box");
                    assert!(al == bl, "[C10] aux payload is min(bytes left in the box, bytes available) long");
                    assert!(ao == bo, "[C10] aux payload is exactly the next bytes of the input");
                }
                (Ev::End { ty: a }, Ev::End { ty: b }) => assert!(a == b, "[C10] aux box end carries the type of its box"),
                (Ev::Code { off: ao, len: al }, Ev::Code { off: bo, len: bl }) => {
                    assert!(al == bl, "[C10] codestream payload is min(bytes left in the box, bytes available) long");
                    assert!(ao == bo, "[C10] codestream payload is exactly the next bytes of the input");
                }
                _ => assert!(false, "[C10] wrong kind of event for this state and input"),
            }
            assert!(consumed == spec.consumed, "[C10,C09] exactly header + index + delivered payload are consumed");
            assert!(after == spec.next, "[C10] next state: box accounting (bytes_left), jxlc/jxlp sequencing");
            assert!(!finished1, "[C10] the iterator goes on after an event");
        }
        (Some(Err(e)), Out::Reject(k)) => {
            match e {
                Error::InvalidBox => assert!(k == 0, "[C10] ill-formed box layout is InvalidBox"),
                Error::ValidationFailed(_) => assert!(k == 1, "[C10] compressed reserved box type is ValidationFailed"),
                _ => assert!(false, "[C10] container errors are InvalidBox / ValidationFailed"),
            }
            assert!(finished1, "[C10,C01] no events after an error");
            if k == 0 {
                // every InvalidBox rejection leaves a state inside Inv, so feeding again after the error is
                // covered by this same contract. (ValidationFailed for a reserved brob type: see err_then_refeed.)
                assert!(inv_abs(&after), "[C01,C10] Inv holds after a rejected box");
            }
            std::mem::forget(r);
            return seen;
        }
        (Some(Err(_)), _) => assert!(false, "[C10] well-formed input rejected"),
        (_, Out::Reject(_)) => assert!(false, "[C10] ill-formed layout (duplicate/misplaced jxlc, out-of-order or post-final jxlp, jxlp or brob smaller than 4 bytes, brob of a reserved type, undersized box) must be rejected"),
        (None, Out::Event(_)) => assert!(false, "[C10,C09] an event is due but the parser waits"),
        (Some(Ok(_)), Out::Quiet) => assert!(false, "[C10,C09] the parser emits an event from an incomplete syntax element"),
    }
    assert!(inv_abs(&after), "[C01,C10] Inv is re-established");
    // the result may hold an Error whose drop glue (io::Error) is irrelevant here and slow in CBMC
    std::mem::forget(r);
    seen
}

const ANY: Case = Case { phase: 0, plain_aux: false, exact_len: None };

// Unwind bounds: emit_single's loop runs at most 3 times (header -> jxlp index -> first event); the only
// other loops are memcmp (12 for the container signature, 4 for `tbox == CODESTREAM` / "brob", 3 for "jxl")
// and is_prefix_of (<= 12). Unwinding assertions are on.
//
// Cost note: CBMC cannot see DetectState's niche-encoded discriminant as a constant once emit_single has
// assigned `*state` (nor InAuxBox's at all: it lives in the Option tag of header.box_size), so every unrolled
// iteration of its loop explores all arms, about 30 s each. The two general harnesses for WaitingBoxHeader
// and InAuxBox therefore take minutes (tier thorough); for InAuxBox the quick tier runs the same contract on
// the two sub-cases for which the loop provably stops after one iteration.
#[kani::proof]
#[kani::unwind(14)]
fn step_signature() {
    let seen = step_contract(Case { phase: 0, ..ANY });
    kani::cover!(seen.event);
    kani::cover!(seen.quiet);
}

// WaitingBoxHeader, all box types, all three size forms, any buffer <= MAXB (thorough).
#[kani::proof]
#[kani::unwind(5)]
fn step_box_header() {
    let seen = step_contract(Case { phase: 1, ..ANY });
    kani::cover!(seen.event);
    kani::cover!(seen.quiet);
    kani::cover!(seen.error);
}

#[kani::proof]
#[kani::unwind(5)]
fn step_jxlp_index() {
    let seen = step_contract(Case { phase: 2, ..ANY });
    kani::cover!(seen.event);
    kani::cover!(seen.quiet);
    kani::cover!(seen.error);
}

// InAuxBox, all box types including brob (original type read or not), any buffer <= MAXB (thorough).
#[kani::proof]
#[kani::unwind(5)]
fn step_aux_box() {
    let seen = step_contract(Case { phase: 3, ..ANY });
    kani::cover!(seen.event);
    kani::cover!(seen.quiet);
    kani::cover!(seen.error);
}

// InAuxBox of a box that is not brob, any buffer <= MAXB: one iteration of emit_single suffices and the
// unwinding assertion proves it.
#[kani::proof]
#[kani::unwind(2)]
fn step_aux_box_plain() {
    let seen = step_contract(Case { phase: 3, plain_aux: true, ..ANY });
    kani::cover!(seen.event);
    kani::cover!(seen.quiet);
}

// InAuxBox, all box types including brob, buffer = exactly 4 bytes (the original type of a brob box).
#[kani::proof]
#[kani::unwind(5)]
fn step_aux_box_4() {
    let seen = step_contract(Case { phase: 3, exact_len: Some(4), ..ANY });
    kani::cover!(seen.event);
    kani::cover!(seen.error);
}

#[kani::proof]
#[kani::unwind(5)]
fn step_codestream() {
    let seen = step_contract(Case { phase: 4, ..ANY });
    kani::cover!(seen.event);
    kani::cover!(seen.quiet);
}

// base case of the induction + feed_bytes resets the consumption counter + kind()
#[kani::proof]
fn init_establishes_inv() {
    let p = ContainerParser::new();
    assert!(abs(&p) == AState { ph: Ph::Sig, seq: Seq::Initial } && inv(&p), "[C10,C01] a new parser satisfies Inv");
    assert!(p.previous_consumed_bytes() == 0 && p.kind() == BitstreamKind::Unknown, "[C10,C09] nothing consumed, kind unknown");

    let phase: u8 = kani::any();
    kani::assume(phase <= 4);
    let (before, mut q) = any_inv_state(phase);
    let k = q.kind();
    let expect = match before.ph { Ph::Sig => 0, Ph::Code { kind, .. } => kind, _ => 2 };
    assert!(kind_no(k) == expect, "[C10] kind(): unknown before the signature, container inside boxes, else as detected");
    let data: [u8; 4] = kani::any();
    {
        let it = q.feed_bytes(&data);
        assert!(!it.finished && it.remaining_input.len() == 4 && it.remaining_input.as_ptr() == data.as_ptr(), "[C09,C10] feed_bytes offers the whole buffer");
    }
    assert!(q.previous_consumed_bytes() == 0 && abs(&q) == before, "[C09,C10] feed_bytes resets previous_consumed_bytes and nothing else");
}

// ------------------------------------------------------------------------------------------------
// C01: feeding again after an error. InvalidBox rejections keep Inv (asserted in step_contract). The one
// other rejection -- a brob box whose original type is reserved -- is checked here end to end: the caller
// gets Err from one feed and, as the public API allows, feeds more bytes.
// ------------------------------------------------------------------------------------------------
#[kani::proof]
#[kani::unwind(5)]
fn err_then_refeed() {
    // InAuxBox (any Inv state of that phase), then exactly the 4 bytes of the original type
    let first: [u8; 4] = kani::any();
    let second: [u8; 4] = kani::any();
    let (_s, mut parser) = any_inv_state(3);
    let rejected = {
        let mut it = parser.feed_bytes(&first);
        let r = it.next();
        let e = matches!(&r, Some(Err(Error::ValidationFailed(_))));
        std::mem::forget(r);
        e
    };
    kani::cover!(rejected);
    if !rejected {
        return;
    }
    let inv_after_error = inv(&parser);
    // no panic (bytes_left -= 4 on a box that has fewer than 4 bytes left)
    {
        let mut it = parser.feed_bytes(&second);
        let r = it.next();
        kani::cover!(r.is_some());
        std::mem::forget(r);
    }
    assert!(inv_after_error, "[C01] Inv holds after a brob box of a reserved type was rejected");
}

// ------------------------------------------------------------------------------------------------
// C09: chunking independence.
//
// A feed (`for e in parser.feed_bytes(buf)`) is the iteration of `next()` until it returns None. The step
// contracts above prove that every `next()` from an Inv state on a buffer of <= MAXB bytes behaves exactly
// like spec_step and re-establishes Inv -- so a feed of the real parser is the iteration of spec_step.
// Chunking independence,
//
//     feed(S, B)   ==   feed(S, B[..k]) ; feed(S', B[c..])      where c = bytes consumed by the first feed
//
// (same error status, same events once adjacent payload events are merged, payloads covering the same
// ranges of B, same final state, same total consumption), follows by induction on the steps of the single
// feed from the one-step lemma below, for feeds of any length and, by induction on the cuts, any chunking.
// (A direct feed-level harness -- three iterated feeds over a 10..16 byte buffer -- did not finish in CBMC
// within 20 minutes and is not part of the suite.)
// Any breaking change of the real parser is caught by the step contracts (they carry the C09 tag too).
// ------------------------------------------------------------------------------------------------
fn shifted(e: Ev, by: usize) -> Ev {
    match e {
        Ev::Data { ty, off, len } => Ev::Data { ty, off: off + by, len },
        Ev::Code { off, len } => Ev::Code { off: off + by, len },
        other => other,
    }
}

// ------------------------------------------------------------------------------------------------
// The one-step lemma. S in Inv, B a buffer, P = B[..k] a prefix:
//   (q) step(S,P) quiet, having consumed c and reached S'  ==>  step(S', B[c..]) == step(S,B) shifted by c
//   (r) step(S,P) rejects                                  ==>  step(S,B) rejects the same way
//   (e) step(S,P) is a non-payload event                   ==>  step(S,B) is identical
//   (p) step(S,P) is a payload event                       ==>  step(S,B) is the same event, possibly longer;
//        if longer, P was used up and step(S', B[k..]) delivers exactly the missing bytes and ends in the
//        same state with the same total consumption.
// Proved on spec_step, which the step contracts equate with ParseEvents::next.
// ------------------------------------------------------------------------------------------------
fn same_step_shifted(a: &SpecStep, b: &SpecStep, by: usize) -> bool {
    // a (run on the tail that starts `by` bytes into B) against b (run on B)
    let out_ok = match (a.out, b.out) {
        (Out::Quiet, Out::Quiet) => true,
        (Out::Reject(x), Out::Reject(y)) => return x == y,
        (Out::Event(x), Out::Event(y)) => shifted(x, by) == y,
        _ => false,
    };
    out_ok && a.consumed + by == b.consumed && a.next == b.next
}

fn prefix_step_contract(phase: u8) -> Seen {
    let data: [u8; MAXB] = kani::any();
    let len: usize = kani::any();
    let k: usize = kani::any();
    kani::assume(len <= MAXB && k <= len);
    let (_parts, s) = any_inv_abs(phase);
    let whole = &data[..len];
    let sp = spec_step(s, &data[..k]);
    let sb = spec_step(s, whole);
    let seen = Seen {
        // the prefix is undecided where the whole buffer yields an event
        quiet: matches!(sp.out, Out::Quiet) && matches!(sb.out, Out::Event(_)),
        // a payload event cut short by the end of the prefix
        event: match (sp.out, sb.out) {
            (Out::Event(Ev::Data { len: a, .. }), Out::Event(Ev::Data { len: b, .. })) => a < b,
            (Out::Event(Ev::Code { len: a, .. }), Out::Event(Ev::Code { len: b, .. })) => a < b,
            _ => false,
        },
        error: matches!(sp.out, Out::Reject(_)),
    };
    match sp.out {
        Out::Quiet => {
            assert!(sp.consumed <= k && inv_abs(&sp.next), "[C09,C01] a quiet step stays inside its buffer and inside Inv");
            let cont = if phase == 0 { spec_step(sp.next, &whole[sp.consumed..]) } else { spec_step_after_signature(sp.next, &whole[sp.consumed..]) };
            assert!(same_step_shifted(&cont, &sb, sp.consumed),
                "[C09] after 'need more data', re-offering the unconsumed bytes plus new ones continues exactly like the single feed");
        }
        Out::Reject(x) => assert!(matches!(sb.out, Out::Reject(y) if x == y), "[C09] a prefix is rejected only if the whole buffer is"),
        Out::Event(e) => match e {
            Ev::Data { off, len: l, .. } | Ev::Code { off, len: l } => {
                let (same_kind, lb) = match (e, sb.out) {
                    (Ev::Data { ty: a, .. }, Out::Event(Ev::Data { ty: b, off: ob, len: lb })) => (a == b && ob == off, lb),
                    (Ev::Code { .. }, Out::Event(Ev::Code { off: ob, len: lb })) => (ob == off, lb),
                    _ => (false, 0),
                };
                assert!(same_kind && lb >= l, "[C09] a payload event on a prefix is the beginning of the payload event on the whole buffer");
                if lb == l {
                    assert!(sp.consumed == sb.consumed && sp.next == sb.next, "[C09] same payload, same state");
                } else {
                    assert!(sp.consumed == k, "[C09] a payload is cut short only by the end of the buffer");
                    let cont = spec_step_after_signature(sp.next, &whole[k..]);
                    let rest_ok = match (e, cont.out) {
                        (Ev::Data { ty: a, .. }, Out::Event(Ev::Data { ty: b, off: 0, len: lc })) => a == b && l + lc == lb,
                        (Ev::Code { .. }, Out::Event(Ev::Code { off: 0, len: lc })) => l + lc == lb,
                        _ => false,
                    };
                    assert!(rest_ok, "[C09] the next feed delivers exactly the rest of the payload");
                    assert!(k + cont.consumed == sb.consumed && cont.next == sb.next, "[C09] split payload: same final state and total consumption");
                }
            }
            _ => assert!(sb.out == sp.out && sb.consumed == sp.consumed && sb.next == sp.next,
                "[C09] an event decided on a prefix is the event decided on the whole buffer"),
        },
    }
    seen
}

#[kani::proof]
#[kani::unwind(14)]
fn prefix_step_signature() {
    let seen = prefix_step_contract(0);
    kani::cover!(seen.quiet);
}
#[kani::proof]
#[kani::unwind(2)]
fn prefix_step_box_header() {
    let seen = prefix_step_contract(1);
    kani::cover!(seen.quiet);
    kani::cover!(seen.error);
}
#[kani::proof]
#[kani::unwind(2)]
fn prefix_step_jxlp_index() {
    let seen = prefix_step_contract(2);
    kani::cover!(seen.quiet);
    kani::cover!(seen.error);
}
#[kani::proof]
#[kani::unwind(2)]
fn prefix_step_aux_box() {
    let seen = prefix_step_contract(3);
    kani::cover!(seen.quiet);
    kani::cover!(seen.event);
    kani::cover!(seen.error);
}
#[kani::proof]
#[kani::unwind(2)]
fn prefix_step_codestream() {
    let seen = prefix_step_contract(4);
    kani::cover!(seen.quiet);
    kani::cover!(seen.event);
}
