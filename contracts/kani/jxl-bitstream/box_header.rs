// Contracts for crates/jxl-bitstream/src/container/box_header.rs (child module: sees the private fields).
//
// ContainerBoxHeader::parse == spec_box_header, the box header of ISO/IEC 18181-2 section 9.1 (= ISOBMFF
// 14496-12 4.2):
//     size  u32 BE | type 4 bytes | [ largesize u64 BE   iff size == 1 ]
//     size == 0            -> box runs to the end of the file (the last box)
//     size == 1            -> real size is largesize, header is 16 bytes
//     otherwise            -> real size is `size`, header is 8 bytes
//     real size counts the header, so payload = real size - header size; a real size smaller than the
//     header is ill-formed.
// A parser that sees fewer bytes than the header occupies cannot decide anything: NeedMoreData, and only then.
use super::*;

#[derive(Clone, Copy, PartialEq, Eq)]
pub(crate) enum SpecHeader {
    NeedMore,
    Invalid,
    Done { ty: [u8; 4], payload: Option<u64>, header_size: usize },
}

pub(crate) fn spec_box_header(b: &[u8]) -> SpecHeader {
    if b.len() < 8 {
        return SpecHeader::NeedMore;
    }
    let size = ((b[0] as u32) << 24) | ((b[1] as u32) << 16) | ((b[2] as u32) << 8) | (b[3] as u32);
    let ty = [b[4], b[5], b[6], b[7]];
    if size == 0 {
        return SpecHeader::Done { ty, payload: None, header_size: 8 };
    }
    if size == 1 {
        if b.len() < 16 {
            return SpecHeader::NeedMore;
        }
        let mut large = 0u64;
        let mut i = 8;
        while i < 16 {
            large = (large << 8) | b[i] as u64;
            i += 1;
        }
        if large < 16 {
            return SpecHeader::Invalid;
        }
        return SpecHeader::Done { ty, payload: Some(large - 16), header_size: 16 };
    }
    if size < 8 {
        return SpecHeader::Invalid;
    }
    SpecHeader::Done { ty, payload: Some(size as u64 - 8), header_size: 8 }
}

const MAXH: usize = 18;

#[kani::proof]
#[kani::unwind(20)]
fn box_header_contract() {
    // all byte values, all lengths 0..=18: every 16-byte prefix, plus two trailing bytes to show that
    // nothing after the header matters.
    let data: [u8; MAXH] = kani::any();
    let len: usize = kani::any();
    kani::assume(len <= MAXH);
    let buf = &data[..len];
    let spec = spec_box_header(buf);
    let r = ContainerBoxHeader::parse(buf);

    kani::cover!(matches!(&r, Ok(HeaderParseResult::Done { header_size: 16, .. })));
    kani::cover!(matches!(&r, Ok(HeaderParseResult::Done { header_size: 8, header }) if header.box_size.is_none()));
    kani::cover!(matches!(&r, Ok(HeaderParseResult::Done { header_size: 8, header }) if header.box_size == Some(0xffff_fff7)));
    kani::cover!(matches!(&r, Ok(HeaderParseResult::NeedMoreData)) && len == 7);
    kani::cover!(matches!(&r, Err(Error::InvalidBox)) && len >= 16);
    kani::cover!(matches!(&r, Ok(HeaderParseResult::NeedMoreData)) && len == 15 && data[3] == 1);

    match (&r, spec) {
        (Ok(HeaderParseResult::NeedMoreData), SpecHeader::NeedMore) => {}
        (Err(Error::InvalidBox), SpecHeader::Invalid) => {}
        (Ok(HeaderParseResult::Done { header, header_size }), SpecHeader::Done { ty, payload, header_size: hs }) => {
            assert!(*header_size == hs, "[C10] header size is 8, or 16 with a largesize field");
            assert!(*header_size <= len, "[C10,C01] header size never exceeds the bytes inspected");
            assert!(header.ty.0 == ty, "[C10] box type is bytes 4..8");
            assert!(header.box_size == payload, "[C10] payload size = declared size - header size; None for a box that runs to end of file");
            assert!(header.is_last == payload.is_none(), "[C10] only a size==0 box is the last box");
            // accessors are the observable interface used by parse.rs
            assert!(header.box_type() == ContainerBoxType(ty) && header.box_size() == payload && header.is_last() == payload.is_none(),
                "[C10] accessors return the parsed fields");
            if let Some(p) = payload {
                assert!(p <= u64::MAX - 16, "[C10,C01] payload size leaves room for the header");
            }
        }
        (Ok(HeaderParseResult::NeedMoreData), _) => assert!(false, "[C10,C09] NeedMoreData although the whole header is present"),
        // includes a size==1 header of which only 8..15 bytes are there: the largesize field is part of the header
        (_, SpecHeader::NeedMore) => assert!(false, "[C10,C09] a verdict on a truncated header (NeedMoreData is due whenever the buffer is shorter than the header: 8 bytes, or 16 with a largesize field)"),
        (Err(Error::InvalidBox), _) => assert!(false, "[C10] well-formed header rejected"),
        (Err(_), _) => assert!(false, "[C10] box header errors are InvalidBox"),
        (Ok(_), SpecHeader::Invalid) => assert!(false, "[C10] a declared size smaller than the header must be rejected with InvalidBox"),
    }
}

// Prefix lemma (C09 at the level of one header): a decision taken on a prefix is the decision taken on
// the whole buffer -- the caller re-offers the same bytes plus more after NeedMoreData.
#[kani::proof]
#[kani::unwind(20)]
fn box_header_prefix_lemma() {
    let data: [u8; MAXH] = kani::any();
    let len: usize = kani::any();
    let cut: usize = kani::any();
    kani::assume(len <= MAXH && cut <= len);
    let full = ContainerBoxHeader::parse(&data[..len]);
    let pre = ContainerBoxHeader::parse(&data[..cut]);
    kani::cover!(matches!(&pre, Ok(HeaderParseResult::NeedMoreData)) && matches!(&full, Ok(HeaderParseResult::Done { .. })));
    kani::cover!(matches!(&pre, Ok(HeaderParseResult::Done { .. })));
    match (&pre, &full) {
        (Ok(HeaderParseResult::NeedMoreData), _) => {}
        (Err(Error::InvalidBox), Err(Error::InvalidBox)) => {}
        (Ok(HeaderParseResult::Done { header: a, header_size: ha }), Ok(HeaderParseResult::Done { header: b, header_size: hb })) => {
            assert!(ha == hb && a.ty == b.ty && a.box_size == b.box_size && a.is_last == b.is_last,
                "[C09] more bytes after a complete header do not change it");
        }
        _ => assert!(false, "[C09] the verdict on a prefix differs from the verdict on the whole buffer"),
    }
}

// Four-character codes of 18181-2 (Table "box types") that parse.rs dispatches on or hands to callers.
#[kani::proof]
fn box_type_codes() {
    assert!(ContainerBoxType::JXL.0 == [0x4a, 0x58, 0x4c, 0x20], "[C10] 'JXL '");
    assert!(ContainerBoxType::FILE_TYPE.0 == [0x66, 0x74, 0x79, 0x70], "[C10] 'ftyp'");
    assert!(ContainerBoxType::JXL_LEVEL.0 == [0x6a, 0x78, 0x6c, 0x6c], "[C10] 'jxll'");
    assert!(ContainerBoxType::JUMBF.0 == [0x6a, 0x75, 0x6d, 0x62], "[C10] 'jumb'");
    assert!(ContainerBoxType::EXIF.0 == [0x45, 0x78, 0x69, 0x66], "[C10] 'Exif'");
    assert!(ContainerBoxType::XML.0 == [0x78, 0x6d, 0x6c, 0x20], "[C10] 'xml '");
    assert!(ContainerBoxType::BROTLI_COMPRESSED.0 == [0x62, 0x72, 0x6f, 0x62], "[C10] 'brob'");
    assert!(ContainerBoxType::FRAME_INDEX.0 == [0x6a, 0x78, 0x6c, 0x69], "[C10] 'jxli'");
    assert!(ContainerBoxType::CODESTREAM.0 == [0x6a, 0x78, 0x6c, 0x63], "[C10] 'jxlc'");
    assert!(ContainerBoxType::PARTIAL_CODESTREAM.0 == [0x6a, 0x78, 0x6c, 0x70], "[C10] 'jxlp'");
    assert!(ContainerBoxType::JPEG_RECONSTRUCTION.0 == [0x6a, 0x62, 0x72, 0x64], "[C10] 'jbrd'");
    assert!(ContainerBoxType::HDR_GAIN_MAP.0 == [0x6a, 0x68, 0x67, 0x6d], "[C10] 'jhgm'");
    let t: [u8; 4] = kani::any();
    let u: [u8; 4] = kani::any();
    assert!((ContainerBoxType(t) == ContainerBoxType(u)) == (t == u), "[C10] box types compare by their four bytes");
}
