// Contracts for crates/jxl-modular/src/transform/squeeze.rs (child module of `transform::squeeze`).
// Only the scalar `_base` kernels and tendency_i32 / tendency_i16 are in reach (SIMD kernels: see README).
//
// Standard (18181-1 H.6.2):
//   smooth_tendency(A, B, C):
//     if (A >= B && B >= C) { X = (4*A - 3*C - B + 6) Idiv 12;
//                             if (X - (X & 1) > 2*(A - B)) X = 2*(A - B) + 1;
//                             if (X + (X & 1) > 2*(B - C)) X = 2*(B - C);  return X; }
//     if (A <= B && B <= C) { X = (4*A - 3*C - B - 6) Idiv 12;
//                             if (X + (X & 1) < 2*(A - B)) X = 2*(A - B) - 1;
//                             if (X - (X & 1) < 2*(B - C)) X = 2*(B - C);  return X; }
//     return 0;
//   horiz_isqueeze(input_1 (W1 x H), input_2 (W2 x H), output ((W1+W2) x H)),  W1 == W2 or W1 == W2 + 1:
//     for y, for x < W2:  avg = input_1(x, y); residu = input_2(x, y);
//                         next_avg = (x + 1 < W1 ? input_1(x + 1, y) : avg);
//                         left = (x > 0 ? output((x << 1) - 1, y) : avg);
//                         diff = residu + smooth_tendency(left, avg, next_avg);
//                         first = avg + diff Idiv 2;   output(2x, y) = first;   output(2x + 1, y) = first - diff;
//     if (W1 > W2) output(2 * W2, y) = input_1(W2, y);
//   vert_isqueeze: the same along columns (top instead of left).
// Idiv truncates toward zero; X & 1 is the two's complement low bit.  The forward transform (encoder side):
//   avg = (A + B + (A > B)) >> 1,  residu = (A - B) - smooth_tendency(left, avg, next_avg)
// with left / next_avg as the decoder will see them.
//
// The in-place layout used by the code: a row (column) of the merged grid holds the W1 averages followed by the
// W2 residuals (transform.rs merges the residual channel to the right of / below the average channel).
//
// Arithmetic: the standard works in mathematical integers; the code in Z/2^32 (Z/2^16) with a truncating
// division by 12 and by 2, which is NOT compatible with wrapping.  The contracts therefore state the exact
// range: the dividend N = 4A - 3C - B +/- 6 of smooth_tendency, diff, first and second must be representable
// in the buffer type.  All of them are when |samples| < 2^28 (32 bit) resp. samples have <= 12 bits + sign
// (16 bit): 8 * 4095 + 6 = 32766.
use super::*;

/// v is representable in a two's complement buffer of `bits` bits
pub(crate) fn fits_bits(v: i64, bits: u32) -> bool {
    v >= -(1i64 << (bits - 1)) && v <= (1i64 << (bits - 1)) - 1
}

/// smooth_tendency of the standard in mathematical integers; second component = the dividend N
/// (0 when the samples are not monotone and nothing is computed).
pub(crate) fn spec_smooth_tendency_n(a: i64, b: i64, c: i64) -> (i64, i64) {
    if a >= b && b >= c {
        let n = 4 * a - 3 * c - b + 6;
        let mut x = n / 12;
        if x - (x & 1) > 2 * (a - b) {
            x = 2 * (a - b) + 1;
        }
        if x + (x & 1) > 2 * (b - c) {
            x = 2 * (b - c);
        }
        (x, n)
    } else if a <= b && b <= c {
        let n = 4 * a - 3 * c - b - 6;
        let mut x = n / 12;
        if x + (x & 1) < 2 * (a - b) {
            x = 2 * (a - b) - 1;
        }
        if x - (x & 1) < 2 * (b - c) {
            x = 2 * (b - c);
        }
        (x, n)
    } else {
        (0, 0)
    }
}
pub(crate) fn spec_smooth_tendency(a: i64, b: i64, c: i64) -> i64 {
    spec_smooth_tendency_n(a, b, c).0
}

// ------------------------------------------------------------------------------------------------
// Modular reasoning for the line kernels.
//
// The line contracts (round trip, == isqueeze of the standard, 16 == 32 bit) do not depend on WHAT
// smooth_tendency computes, only on the decoder and the encoder / the two kernels using the same function of
// (left, avg, next_avg).  CBMC cannot push equalities through chains of 12-dividers (W = 4: > 10 min), so the line
// harnesses replace tendency_i32 / tendency_i16 (kani::stub) and the spec's smooth_tendency by ONE abstract
// function `abstract_tendency` (an uninterpreted function realised as a memo table over symbolic values):
//   * tendency_i32(a,b,c)  := abstract_tendency(a,b,c)  if the dividend N(a,b,c) fits in int32, else arbitrary
//   * tendency_i16(a,b,c)  := abstract_tendency(a,b,c)  if N fits in int16, else arbitrary
//   * spec side            := abstract_tendency(a,b,c)
// justified by tendency_i32_contract / tendency_i16_contract (complete, real code, real divider), which prove
// exactly these equalities with smooth_tendency plus the only fact about its value used here: |T| <= |N| / 12 < 2^40.
// A line kernel that stops calling tendency_i32 / tendency_i16 is no longer abstracted and is then compared
// with an arbitrary function, i.e. fails.
// ------------------------------------------------------------------------------------------------
const MEMO: usize = 16;
// unique non-zero initial values (entries below MEMO_LEN are always written before they are read): Kani 0.68 may give a
// `static mut` the storage of an equal-bytes constant elsewhere in the program
const MEMO_LEN_BASE: usize = 0x4d45_4d4f_4c45_0000;
const ABSTRACT_OFF: u64 = 0x4142_5354_5241_4300;
static mut MEMO_KEY: [(i64, i64, i64); MEMO] = [(0x4d4b_0001, 0x4d4b_0002, 0x4d4b_0003); MEMO];
static mut MEMO_VAL: [i64; MEMO] = [0x4d56_0001; MEMO];
static mut MEMO_LEN: usize = MEMO_LEN_BASE;
static mut ABSTRACT: u64 = ABSTRACT_OFF;

/// dividend of smooth_tendency (0 when not monotone)
pub(crate) fn spec_tendency_dividend(a: i64, b: i64, c: i64) -> i64 {
    if a >= b && b >= c {
        4 * a - 3 * c - b + 6
    } else if a <= b && b <= c {
        4 * a - 3 * c - b - 6
    } else {
        0
    }
}

/// An arbitrary but fixed function of (a, b, c) with |value| < 2^40 (Ackermann encoding: every call gets a
/// fresh value constrained to agree with every earlier call on the same arguments; the table length stays concrete).
fn abstract_tendency(a: i64, b: i64, c: i64) -> i64 {
    unsafe {
        let v: i64 = kani::any();
        kani::assume(v > -(1i64 << 40) && v < (1i64 << 40)); // no arithmetic below can overflow i64
        let mut i = 0;
        while i < MEMO_LEN - MEMO_LEN_BASE {
            kani::assume(!(MEMO_KEY[i].0 == a && MEMO_KEY[i].1 == b && MEMO_KEY[i].2 == c) || MEMO_VAL[i] == v);
            i += 1;
        }
        assert!(MEMO_LEN - MEMO_LEN_BASE < MEMO, "memo table of the abstract function is large enough");
        MEMO_KEY[MEMO_LEN - MEMO_LEN_BASE] = (a, b, c);
        MEMO_VAL[MEMO_LEN - MEMO_LEN_BASE] = v;
        MEMO_LEN += 1;
        v
    }
}

fn stub_tendency_i32(a: i32, b: i32, c: i32) -> i32 {
    let n = spec_tendency_dividend(a as i64, b as i64, c as i64);
    let t = abstract_tendency(a as i64, b as i64, c as i64); // unconditional: keeps the table length concrete
    if fits_bits(n, 32) { t as i32 } else { kani::any() }
}
fn stub_tendency_i16(a: i16, b: i16, c: i16) -> i16 {
    let n = spec_tendency_dividend(a as i64, b as i64, c as i64);
    let t = abstract_tendency(a as i64, b as i64, c as i64);
    if fits_bits(n, 16) { t as i16 } else { kani::any() }
}

/// (T, N) used by the spec line functions: the real smooth_tendency, or the abstract function in line harnesses.
fn tend(a: i64, b: i64, c: i64) -> (i64, i64) {
    if unsafe { ABSTRACT } != ABSTRACT_OFF {
        (abstract_tendency(a, b, c), spec_tendency_dividend(a, b, c))
    } else {
        spec_smooth_tendency_n(a, b, c)
    }
}

/// One line (row or column) of the standard's inverse squeeze in mathematical integers.
/// `coded` = W1 averages followed by W2 residuals. Returns the output line and whether every value the
/// procedure computes (dividend of smooth_tendency, diff, first, second) is representable in `bits` bits.
pub(crate) fn spec_isqueeze_line<const W: usize>(coded: &[i64; W], bits: u32) -> ([i64; W], bool) {
    let w1 = (W + 1) / 2;
    let w2 = W / 2;
    let mut out = [0i64; W];
    let mut ok = true;
    let mut x = 0;
    while x < w2 {
        let avg = coded[x];
        let residu = coded[w1 + x];
        let next_avg = if x + 1 < w1 { coded[x + 1] } else { avg };
        let left = if x > 0 { out[2 * x - 1] } else { avg };
        let (t, n) = tend(left, avg, next_avg);
        let diff = residu + t;
        let first = avg + diff / 2;
        let second = first - diff;
        ok = ok && fits_bits(n, bits) && fits_bits(diff, bits) && fits_bits(first, bits) && fits_bits(second, bits);
        out[2 * x] = first;
        out[2 * x + 1] = second;
        x += 1;
    }
    if w1 > w2 {
        out[2 * w2] = coded[w2];
    }
    (out, ok)
}

/// One line of the forward squeeze (encoder side) in mathematical integers. Returns the coded line
/// (W1 averages, W2 residuals) and whether dividend / diff / residual are representable in `bits` bits.
pub(crate) fn spec_fsqueeze_line<const W: usize>(inp: &[i64; W], bits: u32) -> ([i64; W], bool) {
    let w1 = (W + 1) / 2;
    let w2 = W / 2;
    let mut coded = [0i64; W];
    let mut ok = true;
    let mut x = 0;
    while x < w2 {
        let a = inp[2 * x];
        let b = inp[2 * x + 1];
        let avg = (a + b + (a > b) as i64) >> 1;
        let diff = a - b;
        let next_avg = if 2 * x + 3 < W {
            let c = inp[2 * x + 2];
            let d = inp[2 * x + 3];
            (c + d + (c > d) as i64) >> 1
        } else if 2 * x + 2 < W {
            inp[2 * x + 2]
        } else {
            avg
        };
        let left = if x > 0 { inp[2 * x - 1] } else { avg };
        let (t, n) = tend(left, avg, next_avg);
        let residu = diff - t;
        ok = ok && fits_bits(n, bits) && fits_bits(diff, bits) && fits_bits(residu, bits);
        coded[x] = avg;
        coded[w1 + x] = residu;
        x += 1;
    }
    if w1 > w2 {
        coded[w2] = inp[W - 1];
    }
    (coded, ok)
}

// ------------------------------------------------------------------------------------------------
// smooth_tendency
// ------------------------------------------------------------------------------------------------
#[kani::proof]
fn tendency_i32_contract() {
    let a: i32 = kani::any();
    let b: i32 = kani::any();
    let c: i32 = kani::any();
    let r = tendency_i32(a, b, c); // total: Wrapping arithmetic, constant divisor
    let (t, n) = spec_smooth_tendency_n(a as i64, b as i64, c as i64);
    if fits_bits(n, 32) {
        assert!(r as i64 == t, "[C03,C01] tendency_i32 == smooth_tendency in mathematical integers whenever the dividend 4A-3C-B+/-6 fits in int32");
    }
    assert!(n == spec_tendency_dividend(a as i64, b as i64, c as i64), "[C03] dividend helper used by the line contracts");
    let bound = if n < 0 { -n } else { n } / 12;
    assert!(t >= -bound && t <= bound, "[C03] |smooth_tendency| <= |dividend| / 12 < 2^40 (the only value fact the line contracts use)");
    // the range is tight: outside it the wrapped dividend gives a different value
    kani::cover!(!fits_bits(n, 32) && r as i64 != t);
    // sufficient magnitude bound used by the line contracts: |A|,|B|,|C| < 2^28
    let m = 1i64 << 28;
    if (a as i64) > -m && (a as i64) < m && (b as i64) > -m && (b as i64) < m && (c as i64) > -m && (c as i64) < m {
        assert!(fits_bits(n, 32), "[C03] 29-bit samples keep the dividend inside int32");
    }
    kani::cover!(fits_bits(n, 32) && a > b && b > c && t != 0);
    kani::cover!(fits_bits(n, 32) && a < b && b < c && t != 0);
}

#[kani::proof]
fn tendency_i16_contract() {
    let a: i16 = kani::any();
    let b: i16 = kani::any();
    let c: i16 = kani::any();
    let r16 = tendency_i16(a, b, c);
    let r32 = tendency_i32(a as i32, b as i32, c as i32);
    let (t, n) = spec_smooth_tendency_n(a as i64, b as i64, c as i64);
    assert!(r32 as i64 == t, "[C03,C12] tendency_i32 on int16 samples == smooth_tendency (cannot overflow int32)");
    if fits_bits(n, 16) {
        assert!(r16 as i32 == r32, "[C12,C01] tendency_i16 == tendency_i32 whenever the dividend 4A-3C-B+/-6 of the 32-bit computation fits in int16");
    }
    // 13-bit signed samples (12-bit depth after a decorrelating RCT) are inside the range: 8 * 4095 + 6 = 32766
    if a >= -4095 && a <= 4095 && b >= -4095 && b <= 4095 && c >= -4095 && c <= 4095 {
        assert!(fits_bits(n, 16), "[C12] samples of up to 12 bits + sign keep the dividend inside int16");
    }
    // tight: int16 samples whose dividend leaves int16 make the narrow kernel diverge
    kani::cover!(!fits_bits(n, 16) && r16 as i32 != r32);
    kani::cover!(fits_bits(n, 16) && r32 > 1);
    kani::cover!(fits_bits(n, 16) && r32 < -1);
}

// ------------------------------------------------------------------------------------------------
// horizontal inverse squeeze.  Geometry concrete (W x H, stride W + 1 so that the stride matters),
// sample values symbolic.
// ------------------------------------------------------------------------------------------------
const PAD: i32 = 0x5a5a5a5;

/// inverse_h_i32_base o forward == id
fn sq_h_roundtrip<const W: usize, const H: usize, const N: usize>() {
    let orig: [[i32; W]; H] = kani::any();
    let mut buf = [PAD; N];
    let stride = W + 1;
    let mut y = 0;
    while y < H {
        let mut line = [0i64; W];
        let mut x = 0;
        while x < W {
            line[x] = orig[y][x] as i64;
            x += 1;
        }
        let (coded, ok) = spec_fsqueeze_line::<W>(&line, 32);
        // premise: the forward stage is representable in int32 (otherwise the encoder could not have stored it)
        kani::assume(ok);
        let mut x = 0;
        while x < W {
            buf[y * stride + x] = coded[x] as i32;
            x += 1;
        }
        y += 1;
    }
    {
        let mut grid = MutableSubgrid::from_buf(&mut buf[..], W, H, stride);
        inverse_h_i32_base(&mut grid);
    }
    let x: usize = kani::any();
    let y: usize = kani::any();
    kani::assume(x < W && y < H);
    assert!(buf[y * stride + x] == orig[y][x], "[C03] inverse_h_i32_base(forward squeeze(row)) == row");
    assert!(buf[y * stride + W] == PAD, "[C03,C02] samples outside the subgrid are untouched");
    kani::cover!(orig[0][0] > 1 << 27);
}

/// inverse_h_i32_base == horiz_isqueeze of the standard on arbitrary coded input (within the exact range)
fn sq_h_spec<const W: usize, const H: usize, const N: usize>() {
    let coded: [[i32; W]; H] = kani::any();
    let mut buf = [PAD; N];
    let stride = W + 1;
    let mut y = 0;
    while y < H {
        let mut x = 0;
        while x < W {
            buf[y * stride + x] = coded[y][x];
            x += 1;
        }
        y += 1;
    }
    {
        let mut grid = MutableSubgrid::from_buf(&mut buf[..], W, H, stride);
        inverse_h_i32_base(&mut grid); // no premise: must not panic on any input
    }
    let x: usize = kani::any();
    let y: usize = kani::any();
    kani::assume(x < W && y < H);
    let mut line = [0i64; W];
    let mut i = 0;
    while i < W {
        line[i] = coded[y][i] as i64;
        i += 1;
    }
    let (out, ok) = spec_isqueeze_line::<W>(&line, 32);
    if ok {
        assert!(buf[y * stride + x] as i64 == out[x], "[C03,C01] inverse_h_i32_base == horiz_isqueeze in mathematical integers whenever its values fit in int32");
    }
    kani::cover!(ok);
    kani::cover!(!ok || W == 1);
}

/// C12: inverse_h_i16_base == inverse_h_i32_base
fn sq_h_16<const W: usize, const H: usize, const N: usize>() {
    let coded: [[i16; W]; H] = kani::any();
    let mut buf16 = [0x5a5i16; N];
    let mut buf32 = [PAD; N];
    let stride = W + 1;
    let mut y = 0;
    while y < H {
        let mut x = 0;
        while x < W {
            buf16[y * stride + x] = coded[y][x];
            buf32[y * stride + x] = coded[y][x] as i32;
            x += 1;
        }
        y += 1;
    }
    {
        let mut grid = MutableSubgrid::from_buf(&mut buf16[..], W, H, stride);
        inverse_h_i16_base(&mut grid);
    }
    {
        let mut grid = MutableSubgrid::from_buf(&mut buf32[..], W, H, stride);
        inverse_h_i32_base(&mut grid);
    }
    let x: usize = kani::any();
    let y: usize = kani::any();
    kani::assume(x < W && y < H);
    let mut line = [0i64; W];
    let mut i = 0;
    while i < W {
        line[i] = coded[y][i] as i64;
        i += 1;
    }
    // `ok` <=> every value of the 32-bit computation of this row (dividend, diff, first, second) fits in int16
    let (_, ok) = spec_isqueeze_line::<W>(&line, 16);
    if ok {
        assert!(buf16[y * stride + x] as i32 == buf32[y * stride + x],
            "[C12,C01] inverse_h_i16_base == inverse_h_i32_base whenever the 32-bit computation of the row stays inside int16");
    }
    assert!(buf16[y * stride + W] == 0x5a5, "[C12,C02] samples outside the subgrid are untouched");
    kani::cover!(ok);
    kani::cover!(!ok || W == 1);
}

// ------------------------------------------------------------------------------------------------
// vertical inverse squeeze: W columns of height H
// ------------------------------------------------------------------------------------------------
fn sq_v_roundtrip<const W: usize, const H: usize, const N: usize>() {
    let orig: [[i32; H]; W] = kani::any(); // orig[x][y]
    let mut buf = [PAD; N];
    let stride = W + 1;
    let mut x = 0;
    while x < W {
        let mut line = [0i64; H];
        let mut y = 0;
        while y < H {
            line[y] = orig[x][y] as i64;
            y += 1;
        }
        let (coded, ok) = spec_fsqueeze_line::<H>(&line, 32);
        kani::assume(ok);
        let mut y = 0;
        while y < H {
            buf[y * stride + x] = coded[y] as i32;
            y += 1;
        }
        x += 1;
    }
    {
        let mut grid = MutableSubgrid::from_buf(&mut buf[..], W, H, stride);
        inverse_v_i32_base(&mut grid);
    }
    let x: usize = kani::any();
    let y: usize = kani::any();
    kani::assume(x < W && y < H);
    assert!(buf[y * stride + x] == orig[x][y], "[C03] inverse_v_i32_base(forward squeeze(column)) == column");
    assert!(buf[y * stride + W] == PAD, "[C03,C02] samples outside the subgrid are untouched");
    kani::cover!(orig[0][0] > 1 << 27);
}

fn sq_v_spec<const W: usize, const H: usize, const N: usize>() {
    let coded: [[i32; H]; W] = kani::any();
    let mut buf = [PAD; N];
    let stride = W + 1;
    let mut x = 0;
    while x < W {
        let mut y = 0;
        while y < H {
            buf[y * stride + x] = coded[x][y];
            y += 1;
        }
        x += 1;
    }
    {
        let mut grid = MutableSubgrid::from_buf(&mut buf[..], W, H, stride);
        inverse_v_i32_base(&mut grid);
    }
    let x: usize = kani::any();
    let y: usize = kani::any();
    kani::assume(x < W && y < H);
    let mut line = [0i64; H];
    let mut i = 0;
    while i < H {
        line[i] = coded[x][i] as i64;
        i += 1;
    }
    let (out, ok) = spec_isqueeze_line::<H>(&line, 32);
    if ok {
        assert!(buf[y * stride + x] as i64 == out[y], "[C03,C01] inverse_v_i32_base == vert_isqueeze in mathematical integers whenever its values fit in int32");
    }
    kani::cover!(ok);
    kani::cover!(!ok || H == 1);
}

fn sq_v_16<const W: usize, const H: usize, const N: usize>() {
    let coded: [[i16; H]; W] = kani::any();
    let mut buf16 = [0x5a5i16; N];
    let mut buf32 = [PAD; N];
    let stride = W + 1;
    let mut x = 0;
    while x < W {
        let mut y = 0;
        while y < H {
            buf16[y * stride + x] = coded[x][y];
            buf32[y * stride + x] = coded[x][y] as i32;
            y += 1;
        }
        x += 1;
    }
    {
        let mut grid = MutableSubgrid::from_buf(&mut buf16[..], W, H, stride);
        inverse_v_i16_base(&mut grid);
    }
    {
        let mut grid = MutableSubgrid::from_buf(&mut buf32[..], W, H, stride);
        inverse_v_i32_base(&mut grid);
    }
    let x: usize = kani::any();
    let y: usize = kani::any();
    kani::assume(x < W && y < H);
    let mut line = [0i64; H];
    let mut i = 0;
    while i < H {
        line[i] = coded[x][i] as i64;
        i += 1;
    }
    let (_, ok) = spec_isqueeze_line::<H>(&line, 16);
    if ok {
        assert!(buf16[y * stride + x] as i32 == buf32[y * stride + x],
            "[C12,C01] inverse_v_i16_base == inverse_v_i32_base whenever the 32-bit computation of the column stays inside int16");
    }
    assert!(buf16[y * stride + W] == 0x5a5, "[C12,C02] samples outside the subgrid are untouched");
    kani::cover!(ok);
    kani::cover!(!ok || H == 1);
}

// One harness per geometry (a single harness over several geometries is super-linearly slower).
macro_rules! sq_harness {
    ($name:ident, $f:ident, $w:literal, $h:literal) => {
        #[kani::proof]
        #[kani::unwind(10)]
        #[kani::stub(tendency_i32, stub_tendency_i32)]
        #[kani::stub(tendency_i16, stub_tendency_i16)]
        fn $name() {
            unsafe { ABSTRACT = ABSTRACT_OFF + 1 };
            $f::<$w, $h, { ($w + 1) * $h }>();
        }
    };
}
// horizontal: rows are processed independently; two rows (stride = width + 1) for widths 1-2, one row above.
sq_harness!(sq_h_roundtrip_1, sq_h_roundtrip, 1, 2);
sq_harness!(sq_h_roundtrip_2, sq_h_roundtrip, 2, 2);
sq_harness!(sq_h_roundtrip_3, sq_h_roundtrip, 3, 1);
sq_harness!(sq_h_roundtrip_4, sq_h_roundtrip, 4, 1);
sq_harness!(sq_h_roundtrip_5, sq_h_roundtrip, 5, 1);
sq_harness!(sq_h_roundtrip_6, sq_h_roundtrip, 6, 1);
sq_harness!(sq_h_spec_1, sq_h_spec, 1, 2);
sq_harness!(sq_h_spec_2, sq_h_spec, 2, 2);
sq_harness!(sq_h_spec_3, sq_h_spec, 3, 1);
sq_harness!(sq_h_spec_4, sq_h_spec, 4, 1);
sq_harness!(sq_h_spec_5, sq_h_spec, 5, 1);
sq_harness!(sq_h_spec_6, sq_h_spec, 6, 1);
sq_harness!(sq_h_16_1, sq_h_16, 1, 2);
sq_harness!(sq_h_16_2, sq_h_16, 2, 2);
sq_harness!(sq_h_16_3, sq_h_16, 3, 1);
sq_harness!(sq_h_16_4, sq_h_16, 4, 1);
sq_harness!(sq_h_16_5, sq_h_16, 5, 1);
sq_harness!(sq_h_16_6, sq_h_16, 6, 1);
// vertical: columns are processed independently; two columns for heights 1-2, one column above.
sq_harness!(sq_v_roundtrip_1, sq_v_roundtrip, 2, 1);
sq_harness!(sq_v_roundtrip_2, sq_v_roundtrip, 2, 2);
sq_harness!(sq_v_roundtrip_3, sq_v_roundtrip, 1, 3);
sq_harness!(sq_v_roundtrip_4, sq_v_roundtrip, 1, 4);
sq_harness!(sq_v_roundtrip_5, sq_v_roundtrip, 1, 5);
sq_harness!(sq_v_roundtrip_6, sq_v_roundtrip, 1, 6);
sq_harness!(sq_v_spec_1, sq_v_spec, 2, 1);
sq_harness!(sq_v_spec_2, sq_v_spec, 2, 2);
sq_harness!(sq_v_spec_3, sq_v_spec, 1, 3);
sq_harness!(sq_v_spec_4, sq_v_spec, 1, 4);
sq_harness!(sq_v_spec_5, sq_v_spec, 1, 5);
sq_harness!(sq_v_spec_6, sq_v_spec, 1, 6);
sq_harness!(sq_v_16_1, sq_v_16, 2, 1);
sq_harness!(sq_v_16_2, sq_v_16, 2, 2);
sq_harness!(sq_v_16_3, sq_v_16, 1, 3);
sq_harness!(sq_v_16_4, sq_v_16, 1, 4);
sq_harness!(sq_v_16_5, sq_v_16, 1, 5);
sq_harness!(sq_v_16_6, sq_v_16, 1, 6);
