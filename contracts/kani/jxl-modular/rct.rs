// Contracts for crates/jxl-modular/src/transform/rct.rs (child module of `transform::rct`).
//
// Standard (18181-1 H.6.3, inverse RCT), per pixel, with permutation = rct_type Idiv 7, type = rct_type Umod 7:
//     (A, B, C) = channels begin_c .. begin_c + 2
//     if (type == 6) { tmp = A - (C >> 1); E = C + tmp; F = tmp - (B >> 1); D = F + B; }
//     else { if (type & 1) C = C + A;
//            if ((type >> 1) == 1) B = B + A;
//            if ((type >> 1) == 2) B = B + ((A + C) >> 1);
//            D = A; E = B; F = C; }
//     V[0] = D; V[1] = E; V[2] = F;
//     channel[begin_c + (permutation Umod 3)]                               = V[0]
//     channel[begin_c + ((permutation + 1 + (permutation Idiv 3)) Umod 3)]  = V[1]
//     channel[begin_c + ((permutation + 2 - (permutation Idiv 3)) Umod 3)]  = V[2]
// The forward transform (encoder side) is the unique inverse of that procedure: permute first
// (V[k] = original[idx_k]), then subtract.
//
// Arithmetic: the standard computes in mathematical integers and requires every value to be representable
// in the sample buffer; the code computes in the ring Z/2^32 (Z/2^16) with an arithmetic `>> 1`.
// Contracts:
//   (1) inverse_row_*_base::<T> == spec_rct_inverse (i64 transcription) for EVERY input for which the standard's
//       values (incl. the intermediate A + C of types 4, 5 and tmp of type 6) fit in the buffer type;
//   (2) inverse_row_*_base::<T> o spec_rct_forward_wrapping::<T> == id for ALL sample triples (the decode stage
//       is a bijection of the buffer ring), and spec_rct_forward_wrapping == spec_rct_forward (i64) whenever
//       the latter is representable -- i.e. decoding inverts the standard's forward stage on its whole domain;
//   (3) inverse_permute == the standard's channel assignment == inverse of spec_forward_permute;
//   (4) C12: inverse_row_i16_base::<T> == inverse_row_i32_base::<T> on sign-extended input whenever the
//       32-bit computation (outputs and the intermediates A + F, tmp, c >> 1 ...) stays inside int16.
//       Premise origin: header flag modular_16bit_buffers only (jxl-render/src/lib.rs:280).
use super::*;

/// v is representable in a two's complement buffer of `bits` bits
fn fits_bits(v: i64, bits: u32) -> bool {
    v >= -(1i64 << (bits - 1)) && v <= (1i64 << (bits - 1)) - 1
}

/// H.6.3 transcribed in mathematical integers. Returns (D, E, F) and whether every value the standard names
/// (results and intermediates) lies in [lo, hi].
fn spec_rct_inverse(ty: u32, a: i64, b: i64, c: i64, bits: u32) -> ([i64; 3], bool) {
    let mut ok = true;
    if ty == 6 {
        let tmp = a - (c >> 1);
        let e = c + tmp;
        let f = tmp - (b >> 1);
        let d = f + b;
        ok = ok && fits_bits(tmp, bits) && fits_bits(e, bits) && fits_bits(f, bits) && fits_bits(d, bits);
        ([d, e, f], ok)
    } else {
        let mut b = b;
        let mut c = c;
        if ty & 1 != 0 {
            c = c + a;
            ok = ok && fits_bits(c, bits);
        }
        if (ty >> 1) == 1 {
            b = b + a;
        }
        if (ty >> 1) == 2 {
            ok = ok && fits_bits(a + c, bits);
            b = b + ((a + c) >> 1);
        }
        ok = ok && fits_bits(b, bits);
        ([a, b, c], ok)
    }
}

/// Forward RCT (encoder side) in mathematical integers: input = the three (already permuted) original
/// channels (first, second, third); output = coded (A, B, C). bool = everything representable.
fn spec_rct_forward(ty: u32, v0: i64, v1: i64, v2: i64, bits: u32) -> ([i64; 3], bool) {
    if ty == 6 {
        // YCgCo-R: D = v0 (R), E = v1 (G), F = v2 (B);  B' = Co = R - B, tmp = B + (Co >> 1), C' = Cg = G - tmp, A' = Y = tmp + (Cg >> 1)
        let co = v0 - v2;
        let tmp = v2 + (co >> 1);
        let cg = v1 - tmp;
        let y = tmp + (cg >> 1);
        ([y, co, cg], fits_bits(co, bits) && fits_bits(tmp, bits) && fits_bits(cg, bits) && fits_bits(y, bits))
    } else {
        let a = v0;
        let c = if ty & 1 != 0 { v2 - v0 } else { v2 };
        let mut ok = fits_bits(c, bits);
        let b = if (ty >> 1) == 1 {
            v1 - v0
        } else if (ty >> 1) == 2 {
            ok = ok && fits_bits(v0 + v2, bits);
            v1 - ((v0 + v2) >> 1)
        } else {
            v1
        };
        ([a, b, c], ok && fits_bits(b, bits))
    }
}

macro_rules! forward_wrapping {
    ($name:ident, $t:ty) => {
        /// The same forward transform in the buffer ring (wrapping +/-, arithmetic >> 1).
        fn $name(ty: u32, v0: $t, v1: $t, v2: $t) -> [$t; 3] {
            if ty == 6 {
                let co = v0.wrapping_sub(v2);
                let tmp = v2.wrapping_add(co >> 1);
                let cg = v1.wrapping_sub(tmp);
                let y = tmp.wrapping_add(cg >> 1);
                [y, co, cg]
            } else {
                let a = v0;
                let c = if ty & 1 != 0 { v2.wrapping_sub(v0) } else { v2 };
                let b = if (ty >> 1) == 1 {
                    v1.wrapping_sub(v0)
                } else if (ty >> 1) == 2 {
                    v1.wrapping_sub(v0.wrapping_add(v2) >> 1)
                } else {
                    v1
                };
                [a, b, c]
            }
        }
    };
}
forward_wrapping!(spec_rct_forward_wrapping_i32, i32);
forward_wrapping!(spec_rct_forward_wrapping_i16, i16);

/// The standard's output channel index of V[k] for a permutation in 0..6.
fn spec_perm_index(permutation: u32, k: u32) -> usize {
    (match k {
        0 => permutation % 3,
        1 => (permutation + 1 + permutation / 3) % 3,
        _ => (permutation + 2 - permutation / 3) % 3,
    }) as usize
}

// ------------------------------------------------------------------------------------------------
// i32 rows.  Row length LEN is concrete (1 and 2 are both run by every harness), sample values symbolic.
// ------------------------------------------------------------------------------------------------
fn rct_i32_contract<const TYPE: u32, const LEN: usize>() {
    // original samples (already permuted into V order) -- for the round trip
    let orig: [[i32; LEN]; 3] = kani::any();
    let mut ra = [0i32; LEN];
    let mut rb = [0i32; LEN];
    let mut rc = [0i32; LEN];
    let mut i = 0;
    while i < LEN {
        let f = spec_rct_forward_wrapping_i32(TYPE, orig[0][i], orig[1][i], orig[2][i]);
        let (fm, ok) = spec_rct_forward(TYPE, orig[0][i] as i64, orig[1][i] as i64, orig[2][i] as i64, 32);
        if ok {
            assert!(f[0] as i64 == fm[0] && f[1] as i64 == fm[1] && f[2] as i64 == fm[2],
                "[C03] ring forward RCT == forward RCT in mathematical integers whenever that is representable in int32");
        }
        ra[i] = f[0];
        rb[i] = f[1];
        rc[i] = f[2];
        i += 1;
    }
    let coded = [ra, rb, rc];
    {
        let mut rows: [&mut [i32]; 3] = [&mut ra[..], &mut rb[..], &mut rc[..]];
        inverse_row_i32_base::<TYPE>(&mut rows);
    }
    let out = [ra, rb, rc];
    let x: usize = kani::any();
    kani::assume(x < LEN);
    assert!(out[0][x] == orig[0][x] && out[1][x] == orig[1][x] && out[2][x] == orig[2][x],
        "[C03] inverse_row_i32_base::<T>(forward RCT(v)) == v for every sample triple");
    let (sp, ok) = spec_rct_inverse(TYPE, coded[0][x] as i64, coded[1][x] as i64, coded[2][x] as i64, 32);
    if ok {
        assert!(out[0][x] as i64 == sp[0] && out[1][x] as i64 == sp[1] && out[2][x] as i64 == sp[2],
            "[C03] inverse_row_i32_base::<T> == H.6.3 in mathematical integers whenever its values fit in int32");
    }
    kani::cover!(ok);
    kani::cover!(!ok || TYPE == 0); // type 0 has no arithmetic, nothing can leave the range
}

macro_rules! rct_i32_harness {
    ($name:ident, $t:literal) => {
        #[kani::proof]
        #[kani::unwind(4)]
        fn $name() {
            rct_i32_contract::<$t, 1>();
            rct_i32_contract::<$t, 2>();
        }
    };
}
rct_i32_harness!(rct_i32_type0, 0);
rct_i32_harness!(rct_i32_type1, 1);
rct_i32_harness!(rct_i32_type2, 2);
rct_i32_harness!(rct_i32_type3, 3);
rct_i32_harness!(rct_i32_type4, 4);
rct_i32_harness!(rct_i32_type5, 5);
rct_i32_harness!(rct_i32_type6, 6);

// ------------------------------------------------------------------------------------------------
// i16 rows: round trip (C03) and agreement with the i32 kernel (C12)
// ------------------------------------------------------------------------------------------------
fn rct_i16_contract<const TYPE: u32, const LEN: usize>() {
    let orig: [[i16; LEN]; 3] = kani::any();
    let mut ra = [0i16; LEN];
    let mut rb = [0i16; LEN];
    let mut rc = [0i16; LEN];
    let mut i = 0;
    while i < LEN {
        let f = spec_rct_forward_wrapping_i16(TYPE, orig[0][i], orig[1][i], orig[2][i]);
        let (fm, ok) = spec_rct_forward(TYPE, orig[0][i] as i64, orig[1][i] as i64, orig[2][i] as i64, 16);
        if ok {
            assert!(f[0] as i64 == fm[0] && f[1] as i64 == fm[1] && f[2] as i64 == fm[2],
                "[C03] ring forward RCT == forward RCT in mathematical integers whenever that is representable in int16");
        }
        ra[i] = f[0];
        rb[i] = f[1];
        rc[i] = f[2];
        i += 1;
    }
    {
        let mut rows: [&mut [i16]; 3] = [&mut ra[..], &mut rb[..], &mut rc[..]];
        inverse_row_i16_base::<TYPE>(&mut rows);
    }
    let out = [ra, rb, rc];
    let x: usize = kani::any();
    kani::assume(x < LEN);
    assert!(out[0][x] == orig[0][x] && out[1][x] == orig[1][x] && out[2][x] == orig[2][x],
        "[C03,C12] inverse_row_i16_base::<T>(forward RCT(v)) == v for every int16 sample triple");

    // ---- C12: arbitrary coded int16 input (not only images of the forward transform) ----
    let cin: [[i16; LEN]; 3] = kani::any();
    let mut na = cin[0];
    let mut nb = cin[1];
    let mut nc = cin[2];
    let mut wa = [0i32; LEN];
    let mut wb = [0i32; LEN];
    let mut wc = [0i32; LEN];
    let mut i = 0;
    while i < LEN {
        wa[i] = cin[0][i] as i32;
        wb[i] = cin[1][i] as i32;
        wc[i] = cin[2][i] as i32;
        i += 1;
    }
    {
        let mut rows: [&mut [i16]; 3] = [&mut na[..], &mut nb[..], &mut nc[..]];
        inverse_row_i16_base::<TYPE>(&mut rows);
    }
    {
        let mut rows: [&mut [i32]; 3] = [&mut wa[..], &mut wb[..], &mut wc[..]];
        inverse_row_i32_base::<TYPE>(&mut rows);
    }
    // the 32-bit computation == H.6.3 in Z (int16 inputs cannot overflow int32); `ok` <=> all its values fit int16
    let (sp, ok) = spec_rct_inverse(TYPE, cin[0][x] as i64, cin[1][x] as i64, cin[2][x] as i64, 16);
    assert!(wa[x] as i64 == sp[0] && wb[x] as i64 == sp[1] && wc[x] as i64 == sp[2],
        "[C03,C12] inverse_row_i32_base::<T> on int16-range input == H.6.3 in mathematical integers");
    if ok {
        assert!(na[x] as i32 == wa[x] && nb[x] as i32 == wb[x] && nc[x] as i32 == wc[x],
            "[C12] inverse_row_i16_base::<T> == inverse_row_i32_base::<T> whenever every value of the 32-bit computation fits in int16");
    }
    // without the shifted intermediates the two kernels are ring-homomorphic images of each other
    if TYPE < 4 {
        assert!(na[x] == wa[x] as i16 && nb[x] == wb[x] as i16 && nc[x] == wc[x] as i16,
            "[C12] types 0-3: i16 kernel == i32 kernel truncated to 16 bits, for all inputs");
    }
    kani::cover!(ok);
    kani::cover!(!ok || TYPE == 0);
}

macro_rules! rct_i16_harness {
    ($name:ident, $t:literal) => {
        #[kani::proof]
        #[kani::unwind(4)]
        fn $name() {
            rct_i16_contract::<$t, 2>(); // row length 1 is covered by the i32 harnesses (same loop shape)
        }
    };
}
rct_i16_harness!(rct_i16_type0, 0);
rct_i16_harness!(rct_i16_type1, 1);
rct_i16_harness!(rct_i16_type2, 2);
rct_i16_harness!(rct_i16_type3, 3);
rct_i16_harness!(rct_i16_type4, 4);
rct_i16_harness!(rct_i16_type5, 5);
rct_i16_harness!(rct_i16_type6, 6);

// ------------------------------------------------------------------------------------------------
// channel permutation
// ------------------------------------------------------------------------------------------------
fn rct_permutation_len<const LEN: usize>(permutation: u32) {
    let v: [[i32; LEN]; 3] = kani::any(); // V[0], V[1], V[2] rows as produced by inverse_row_*
    let mut a = v[0];
    let mut b = v[1];
    let mut c = v[2];
    inverse_permute::<i32>(permutation, [&mut a[..], &mut b[..], &mut c[..]]);
    let out = [a, b, c];
    let x: usize = kani::any();
    kani::assume(x < LEN);
    let i0 = spec_perm_index(permutation, 0);
    let i1 = spec_perm_index(permutation, 1);
    let i2 = spec_perm_index(permutation, 2);
    assert!(i0 != i1 && i1 != i2 && i0 != i2, "[C03] the standard's assignment is a permutation for permutation < 6");
    assert!(out[i0][x] == v[0][x], "[C03] channel[begin_c + permutation % 3] = V[0]");
    assert!(out[i1][x] == v[1][x], "[C03] channel[begin_c + (permutation + 1 + permutation / 3) % 3] = V[1]");
    assert!(out[i2][x] == v[2][x], "[C03] channel[begin_c + (permutation + 2 - permutation / 3) % 3] = V[2]");
    // forward (encoder) permutation: V[k] = original[idx_k]; inverse_permute undoes it
    let orig: [[i32; LEN]; 3] = kani::any();
    let mut a = orig[i0];
    let mut b = orig[i1];
    let mut c = orig[i2];
    inverse_permute::<i32>(permutation, [&mut a[..], &mut b[..], &mut c[..]]);
    assert!(a[x] == orig[0][x] && b[x] == orig[1][x] && c[x] == orig[2][x],
        "[C03] inverse_permute o spec_forward_permute == id");
    // 16-bit buffers: same assignment
    let v16: [[i16; LEN]; 3] = kani::any();
    let mut a = v16[0];
    let mut b = v16[1];
    let mut c = v16[2];
    inverse_permute::<i16>(permutation, [&mut a[..], &mut b[..], &mut c[..]]);
    let out16 = [a, b, c];
    assert!(out16[i0][x] == v16[0][x] && out16[i1][x] == v16[1][x] && out16[i2][x] == v16[2][x],
        "[C03,C12] inverse_permute::<i16> performs the same channel assignment");
}

#[kani::proof]
#[kani::unwind(4)]
fn rct_permutation_contract() {
    // permutation = rct_type / 7 with rct_type = U32(6, u(2), 2+u(4), 10+u(6)) <= 73 (transform.rs:118,189);
    // the standard defines the assignment for permutation in 0..6 (rct_type < 42).
    let permutation: u32 = kani::any();
    kani::assume(permutation < 6);
    rct_permutation_len::<1>(permutation);
    rct_permutation_len::<2>(permutation);
    kani::cover!(permutation == 1);
    kani::cover!(permutation == 5);
}
