// Contracts for crates/jxl-modular/src/predictor.rs (child module of `predictor`: sees the private state).
//
// Standard (18181-1 H.3 neighbourhood, H.4 properties / predictors, H.5 weighted predictor), for the sample at
// (x, y) of a channel of width `width`:
//   W   = x > 0 ? ch(x-1, y) : (y > 0 ? ch(x, y-1) : 0)
//   N   = y > 0 ? ch(x, y-1) : W
//   NW  = x > 0 && y > 0 ? ch(x-1, y-1) : W
//   NE  = x + 1 < width && y > 0 ? ch(x+1, y-1) : N
//   NN  = y > 1 ? ch(x, y-2) : N
//   NEE = x + 2 < width && y > 0 ? ch(x+2, y-1) : NE
//   WW  = x > 1 ? ch(x-2, y) : W
//   predictor 0: 0   1: W   2: N   3: (W + N) Idiv 2   4: abs(N - NW) < abs(W - NW) ? W : N
//             5: clamp(W + N - NW, min(W, N), max(W, N))   6: (wp prediction + 3) >> 3   7: NE   8: NW   9: WW
//             10: (W + NW) Idiv 2   11: (N + NW) Idiv 2   12: (N + NE) Idiv 2
//             13: (6*N - 2*NN + 7*W + WW + NEE + 3*NE + 8) Idiv 16
//   property  2: y  3: x  4: abs(N)  5: abs(W)  6: N  7: W  8: x > 0 ? W - (property 9 of (x-1, y)) : W
//             9: W + N - NW  10: W - NW  11: NW - N  12: N - NE  13: N - NN  14: W - WW  15: wp max_error
//   (properties 0 and 1 -- channel and stream index -- are resolved when the MA tree is flattened, ma.rs; the
//    per-sample vector holds 0 there.)
// Values are mathematical integers in the standard; the code stores prediction and properties in i32, so the
// contract is "code == standard's value wrapped to 32 bits" for ALL neighbour values (exact whenever it fits).
use super::*;

#[derive(Clone, Copy)]
pub(crate) struct Nb {
    w: i64,
    n: i64,
    nw: i64,
    ne: i64,
    nn: i64,
    nee: i64,
    ww: i64,
}

/// H.3 neighbourhood of (x, y) in a WxH image.
pub(crate) fn spec_neighbours<const W: usize, const H: usize>(img: &[[i32; W]; H], x: usize, y: usize) -> Nb {
    let ch = |xx: usize, yy: usize| img[yy][xx] as i64;
    let w = if x > 0 { ch(x - 1, y) } else if y > 0 { ch(x, y - 1) } else { 0 };
    let n = if y > 0 { ch(x, y - 1) } else { w };
    let nw = if x > 0 && y > 0 { ch(x - 1, y - 1) } else { w };
    let ne = if x + 1 < W && y > 0 { ch(x + 1, y - 1) } else { n };
    let nn = if y > 1 { ch(x, y - 2) } else { n };
    let nee = if x + 2 < W && y > 0 { ch(x + 2, y - 1) } else { ne };
    let ww = if x > 1 { ch(x - 2, y) } else { w };
    Nb { w, n, nw, ne, nn, nee, ww }
}

fn abs64(v: i64) -> i64 {
    if v < 0 { -v } else { v }
}

/// Table of predictors (all but the weighted one), mathematical integers. `/` truncates toward zero = Idiv.
pub(crate) fn spec_predict(k: u32, nb: &Nb) -> i64 {
    let Nb { w, n, nw, ne, nn, nee, ww } = *nb;
    match k {
        0 => 0,
        1 => w,
        2 => n,
        3 => (w + n) / 2,
        4 => {
            if abs64(n - nw) < abs64(w - nw) { w } else { n }
        }
        5 => {
            let lo = if w < n { w } else { n };
            let hi = if w < n { n } else { w };
            let g = w + n - nw;
            if g < lo { lo } else if g > hi { hi } else { g }
        }
        7 => ne,
        8 => nw,
        9 => ww,
        10 => (w + nw) / 2,
        11 => (n + nw) / 2,
        12 => (n + ne) / 2,
        _ => (6 * n - 2 * nn + 7 * w + ww + nee + 3 * ne + 8) / 16,
    }
}

/// Property 2..15 (mathematical integers); `prop9_left` = property 9 of the sample to the left (0 at x == 0).
pub(crate) fn spec_property(p: usize, x: usize, y: usize, nb: &Nb, prop9_left: i64, wp_max_error: i64) -> i64 {
    let Nb { w, n, nw, ne, nn, nee: _, ww } = *nb;
    match p {
        0 | 1 => 0,
        2 => y as i64,
        3 => x as i64,
        4 => abs64(n),
        5 => abs64(w),
        6 => n,
        7 => w,
        8 => if x > 0 { w - prop9_left } else { w },
        9 => w + n - nw,
        10 => w - nw,
        11 => nw - n,
        12 => n - ne,
        13 => n - nn,
        14 => w - ww,
        _ => wp_max_error,
    }
}

fn fits32(v: i64) -> bool {
    v >= i32::MIN as i64 && v <= i32::MAX as i64
}

// ------------------------------------------------------------------------------------------------
// Predictor numbering of the bitstream (TryFrom<u32>)
// ------------------------------------------------------------------------------------------------
#[kani::proof]
fn predictor_numbering_contract() {
    let v: u32 = kani::any();
    match Predictor::try_from(v) {
        Ok(p) => {
            assert!(v < 14 && p as u32 == v, "[C03,C01] predictor k of the bitstream is the k-th predictor of the standard's table");
        }
        Err(_) => assert!(v >= 14, "[C03,C01] exactly the 14 predictors are accepted"),
    }
    kani::cover!(v == 13);
    kani::cover!(v == 14);
}

// ------------------------------------------------------------------------------------------------
// The claim "Predictor::predict / Properties == the standard on every sample of every image" is split in two:
//  (A) predict_arith_contract  [complete over values]: for ARBITRARY neighbour values held by a PredictorState,
//      predict(k) == spec_predict(k, neighbours the state reports) and the property vector == spec_property(...).
//  (B) neighbours_on_image_WxH [bounded geometry, complete over sample values]: driving the real state over a
//      fully symbolic image exactly as decode_single_node_slow (image.rs:894-949) does -- rows 0..2 and the first /
//      last two columns with EDGE = true, the interior of rows >= 2 of channels wider than 4 with EDGE = false --
//      the neighbours the state reports at EVERY position are the H.3 neighbours of the image, and the
//      property vector is the standard's.
// ------------------------------------------------------------------------------------------------
fn nb_of_state<const EDGE: bool>(st: &PredictorState<'_, '_, i32>) -> Nb {
    Nb {
        w: st.w as i64,
        n: st.n as i64,
        nw: st.nw as i64,
        ne: st.ne::<EDGE>() as i64,
        nn: st.nn::<EDGE>() as i64,
        nee: st.nee::<EDGE>() as i64,
        ww: st.ww::<EDGE>() as i64,
    }
}

fn predict_arith<const EDGE: bool>() {
    // an interior position (x = 2 of a 5-wide channel, y >= 2) with arbitrary sample values everywhere
    let prev: [i32; 5] = kani::any();
    let curr: [i32; 5] = kani::any();
    let mut st = PredictorState::<i32>::new();
    st.width = 5;
    st.prev_row = prev.to_vec();
    st.curr_row = curr.to_vec();
    st.x = 2;
    st.y = kani::any();
    kani::assume(st.y >= 2 && st.y < (1 << 30)); // channel heights are < 2^30 (frame dimension limit)
    st.w = kani::any();
    st.n = kani::any();
    st.nw = kani::any();
    st.prev_grad = kani::any();
    let prev_grad = st.prev_grad;
    let (x, y) = (st.x as usize, st.y as usize);
    let nb = nb_of_state::<EDGE>(&st);
    let k: u32 = kani::any();
    kani::assume(k < 14 && k != 6);
    let predictor = match Predictor::try_from(k) {
        Ok(p) => p,
        Err(_) => unreachable!(),
    };
    let props = Properties::new::<EDGE>(&mut st, None);
    let got = predictor.predict::<i32, EDGE>(&props);
    let want = spec_predict(k, &nb);
    assert!(got == want as i32, "[C03,C01] Predictor::predict == predictor k of the standard wrapped to 32 bits, for all neighbour values");
    if fits32(want) {
        assert!(got as i64 == want, "[C03] ... and exactly the standard's value whenever that fits in int32");
    }
    kani::cover!(k == 13 && !fits32(want));
    kani::cover!(k == 4 && got == nb.w as i32 && nb.w != nb.n);
    kani::cover!(k == 5 && got != nb.w as i32 && got != nb.n as i32);
    let p: usize = kani::any();
    kani::assume(p < 16);
    let gp = props.get(p);
    let wantp = spec_property(p, x, y, &nb, prev_grad as i64, 0);
    assert!(gp == wantp as i32, "[C03,C01] Properties::get(p) == property p of the standard wrapped to 32 bits, for all neighbour values");
    kani::cover!(p == 9 && !fits32(wantp));
}

#[kani::proof]
#[kani::unwind(7)]
fn predict_arith_edge_contract() {
    predict_arith::<true>();
}

#[kani::proof]
#[kani::unwind(7)]
fn predict_arith_interior_contract() {
    predict_arith::<false>();
}

fn neighbours_on_image<const W: usize, const H: usize>() {
    let img: [[i32; W]; H] = kani::any();
    let mut st = PredictorState::<i32>::new();
    st.reset(W as u32, &[], None);
    let mut interior = 0;
    let mut y = 0;
    while y < H {
        let mut x = 0;
        while x < W {
            let edge = !(y >= 2 && W > 4 && x >= 2 && x < W - 2);
            if !edge {
                interior += 1;
            }
            let nb = spec_neighbours::<W, H>(&img, x, y);
            let prop9_left = if x > 0 {
                let l = spec_neighbours::<W, H>(&img, x - 1, y);
                (l.w + l.n - l.nw) as i32 as i64 // the stored (32-bit) property 9 of the left sample
            } else {
                0
            };
            assert!(st.x as usize == x && st.y as usize == y, "[C03] the state tracks the raster position");
            let props = if edge { st.properties::<true>() } else { st.properties::<false>() };
            let got = if edge { nb_of_state::<true>(&*props.predictor) } else { nb_of_state::<false>(&*props.predictor) };
            assert!(got.w == nb.w && got.n == nb.n && got.nw == nb.nw, "[C03,C01] W, N, NW of the state are the H.3 neighbours");
            assert!(got.ne == nb.ne && got.nee == nb.nee, "[C03,C01] NE, NEE of the state are the H.3 neighbours");
            assert!(got.nn == nb.nn && got.ww == nb.ww, "[C03,C01] NN, WW of the state are the H.3 neighbours");
            let mut p = 0;
            while p < 16 {
                assert!(props.get(p) == spec_property(p, x, y, &nb, prop9_left, 0) as i32,
                    "[C03,C01] property vector == the standard's properties 2..15 (no weighted predictor: property 15 = 0)");
                p += 1;
            }
            props.record(img[y][x]);
            x += 1;
        }
        y += 1;
    }
    kani::cover!(W <= 4 || H <= 2 || interior > 0); // the EDGE = false path is exercised when the geometry has an interior
}

macro_rules! image_harness {
    ($name:ident, $w:literal, $h:literal) => {
        #[kani::proof]
        #[kani::unwind(18)]
        fn $name() {
            neighbours_on_image::<$w, $h>()
        }
    };
}
image_harness!(neighbours_image_1x3, 1, 3);
image_harness!(neighbours_image_2x3, 2, 3);
image_harness!(neighbours_image_3x3, 3, 3);
image_harness!(neighbours_image_4x3, 4, 3);
image_harness!(neighbours_image_5x3, 5, 3);
image_harness!(neighbours_image_6x4, 6, 4);

// ------------------------------------------------------------------------------------------------
// Weighted (self-correcting) predictor, H.5.
//   subpred[0] = W3 + NE3 - N3                                   (X3 = X << 3)
//   subpred[1] = N3 - (((teW + teN + teNE) * wp_p1) >> 5)
//   subpred[2] = W3 - (((teW + teN + teNW) * wp_p2) >> 5)
//   subpred[3] = N3 - ((teNW*wp_p3a + teN*wp_p3b + teNE*wp_p3c + (NN3 - N3)*wp_p3d + (NW3 - W3)*wp_p3e) >> 5)
//   error2weight(e, maxweight): shift = max(0, floor(log2(e + 1)) - 5);
//                               4 + ((maxweight * ((1 << 24) Idiv ((e >> shift) + 1))) >> shift)
//   weight[i] = error2weight(err_sum[i], wp_wi); sum_weights = sum(weight); log_weight = floor(log2(sum_weights)) + 1;
//   weight[i] >>= log_weight - 5; sum_weights = sum(weight);
//   s = (sum_weights >> 1) - 1 + sum(subpred[i] * weight[i]);  prediction = (s * ((1 << 24) Idiv sum_weights)) >> 24;
//   if (((teN ^ teW) | (teN ^ teNW)) <= 0) prediction = clamp(prediction, min(W3, N3, NE3), max(W3, N3, NE3));
//   max_error = teW; for e in (teN, teNW, teNE): if (abs(e) > abs(max_error)) max_error = e;
// The spec below is written with i64 arithmetic whose every operation is overflow-checked by Kani, so it IS the
// mathematical-integer value; (1 << 24) Idiv d is taken from a table built by that very formula (a symbolic divisor
// does not close in CBMC), and div_lookup_contract checks the code's DIV_LOOKUP against the same formula.
// State domain: every value the record() step can store -- true errors are `as i32` truncations (any i32),
// sub-predictor error sums are wrapping u32 sums (any u32), header fields u(5) / u(4) (WpHeader bundle).
// ------------------------------------------------------------------------------------------------
fn spec_div24_table() -> [i64; 65] {
    let mut t = [0i64; 65];
    let mut i = 1;
    while i <= 64 {
        t[i] = (1i64 << 24) / (i as i64);
        i += 1;
    }
    t
}

/// sub-predictions and max_error of H.5 (overflow-checked i64 = mathematical integers)
fn spec_wp_subpred(wp: &WpHeader, te_w: i64, te_n: i64, te_nw: i64, te_ne: i64, n: i64, nw: i64, ne: i64, w: i64, nn: i64) -> ([i64; 4], i64) {
    let (n3, nw3, ne3, w3, nn3) = (n * 8, nw * 8, ne * 8, w * 8, nn * 8);
    let subpred = [
        w3 + ne3 - n3,
        n3 - (((te_w + te_n + te_ne) * wp.wp_p1 as i64) >> 5),
        w3 - (((te_w + te_n + te_nw) * wp.wp_p2 as i64) >> 5),
        n3 - ((te_nw * wp.wp_p3a as i64 + te_n * wp.wp_p3b as i64 + te_ne * wp.wp_p3c as i64
            + (nn3 - n3) * wp.wp_p3d as i64 + (nw3 - w3) * wp.wp_p3e as i64) >> 5),
    ];
    let mut max_error = te_w;
    if abs64(te_n) > abs64(max_error) {
        max_error = te_n;
    }
    if abs64(te_nw) > abs64(max_error) {
        max_error = te_nw;
    }
    if abs64(te_ne) > abs64(max_error) {
        max_error = te_ne;
    }
    (subpred, max_error)
}

/// error2weight of H.5 with the machine types of the reference decoder (uint32 weights)
fn spec_error2weight(err_sum: u32, maxweight: u32, div: &[u32; 65]) -> u32 {
    // shift = max(0, floor(log2(err_sum + 1)) - 5), in the form wp_shift_lemma proves equal to it
    let shift = ((err_sum as u64 + 1) >> 5).checked_ilog2().unwrap_or(0);
    4 + ((maxweight * div[(err_sum >> shift) as usize + 1]) >> shift)
}

/// weighted prediction of H.5 given the sub-predictions (uint32 weights, int64 accumulator as in the reference decoder;
/// wp_predict_total_contract proves that none of these operations overflows in the real code)
fn spec_wp_prediction(wp: &WpHeader, subpred: [i64; 4], te_w: i64, te_n: i64, te_nw: i64, err_sum: [u32; 4],
                      n: i64, ne: i64, w: i64) -> i64 {
    let mut div = [0u32; 65];
    let mut i = 1;
    while i <= 64 {
        div[i] = ((1u64 << 24) / i as u64) as u32;
        i += 1;
    }
    let (n3, ne3, w3) = (n * 8, ne * 8, w * 8);
    let mut weight = [
        spec_error2weight(err_sum[0], wp.wp_w0, &div),
        spec_error2weight(err_sum[1], wp.wp_w1, &div),
        spec_error2weight(err_sum[2], wp.wp_w2, &div),
        spec_error2weight(err_sum[3], wp.wp_w3, &div),
    ];
    let sum_weights = weight[0] + weight[1] + weight[2] + weight[3];
    // log_weight - 5 = floor(log2(sum_weights)) + 1 - 5, in the form wp_shift_lemma proves equal to it (sum_weights >= 16)
    let log_weight_m5 = (sum_weights as u64 >> 4).ilog2();
    let mut i = 0;
    while i < 4 {
        weight[i] >>= log_weight_m5;
        i += 1;
    }
    let sum_weights = weight[0] + weight[1] + weight[2] + weight[3];
    let mut s = (sum_weights as i64 >> 1) - 1;
    let mut i = 0;
    while i < 4 {
        s += subpred[i] * weight[i] as i64;
        i += 1;
    }
    let mut prediction = (s * div[sum_weights as usize] as i64) >> 24;
    if ((te_n ^ te_w) | (te_n ^ te_nw)) <= 0 {
        let mn = if n3 < w3 { n3 } else { w3 };
        let mn = if mn < ne3 { mn } else { ne3 };
        let mx = if n3 > w3 { n3 } else { w3 };
        let mx = if mx > ne3 { mx } else { ne3 };
        prediction = if prediction < mn { mn } else if prediction > mx { mx } else { prediction };
    }
    prediction
}

#[kani::proof]
#[kani::unwind(66)]
fn div_lookup_contract() {
    let t = spec_div24_table();
    let mut i = 1;
    while i <= 64 {
        assert!(DIV_LOOKUP[i] as i64 == t[i], "[C03] DIV_LOOKUP[i] == (1 << 24) Idiv i");
        i += 1;
    }
    assert!(DIV_LOOKUP.len() == 65);
}

fn any_wp_header() -> WpHeader {
    let h = WpHeader {
        default_wp: kani::any(),
        wp_p1: kani::any(),
        wp_p2: kani::any(),
        wp_p3a: kani::any(),
        wp_p3b: kani::any(),
        wp_p3c: kani::any(),
        wp_p3d: kani::any(),
        wp_p3e: kani::any(),
        wp_w0: kani::any(),
        wp_w1: kani::any(),
        wp_w2: kani::any(),
        wp_w3: kani::any(),
    };
    // ranges of the bundle definition (predictor.rs:8-21): u(5) and u(4)
    kani::assume(h.wp_p1 < 32 && h.wp_p2 < 32 && h.wp_p3a < 32 && h.wp_p3b < 32 && h.wp_p3c < 32 && h.wp_p3d < 32 && h.wp_p3e < 32);
    kani::assume(h.wp_w0 < 16 && h.wp_w1 < 16 && h.wp_w2 < 16 && h.wp_w3 < 16);
    h
}

/// the header every stream with default_wp = true uses (defaults of the bundle, predictor.rs:9-20)
fn default_wp_header() -> WpHeader {
    WpHeader { default_wp: true, wp_p1: 16, wp_p2: 10, wp_p3a: 7, wp_p3b: 7, wp_p3c: 7, wp_p3d: 0, wp_p3e: 0, wp_w0: 13, wp_w1: 12, wp_w2: 12, wp_w3: 12 }
}

fn any_sc_state() -> SelfCorrectingPredictor {
    any_sc_state_with(any_wp_header())
}

fn any_sc_state_with(wp: WpHeader) -> SelfCorrectingPredictor {
    SelfCorrectingPredictor {
        width: kani::any(),
        x: kani::any(),
        y: kani::any(),
        true_err_row: Vec::new(),
        subpred_err_row: Vec::new(),
        wp,
        true_err_w: kani::any(),
        true_err_nw: kani::any(),
        true_err_n: kani::any(),
        true_err_ne: kani::any(),
        subpred_err_nw_ww: kani::any(),
        subpred_err_n_w: kani::any(),
        subpred_err_ne: kani::any(),
    }
}

/// Totality: no index out of DIV_LOOKUP, no shift overflow, no ilog2(0), no i64 / u32 overflow, for every state.
#[kani::proof]
#[kani::unwind(66)]
fn wp_predict_total_contract() {
    let sc = any_sc_state();
    let (n, nw, ne, w, nn): (i32, i32, i32, i32, i32) = kani::any();
    let r = sc.predict(n, nw, ne, w, nn);
    // sanity of the result that every caller relies on: max_error is one of the four true errors
    assert!(r.max_error == sc.true_err_w || r.max_error == sc.true_err_n || r.max_error == sc.true_err_nw || r.max_error == sc.true_err_ne,
        "[C01,C03] max_error is one of teW, teN, teNW, teNE");
    assert!(r.subpred[0] == (w as i64 + ne as i64 - n as i64) * 8, "[C03] subpred[0] == W3 + NE3 - N3");
    // predictor 6 = (prediction + 3) >> 3 must not overflow either (Predictor::predict, SelfCorrecting arm)
    assert!(r.prediction > i64::MIN / 2 && r.prediction < i64::MAX / 2, "[C01] prediction stays far inside i64");
}

/// the two closed forms used by spec_error2weight / spec_wp_prediction are the standard's expressions
#[kani::proof]
fn wp_shift_lemma() {
    let e: u32 = kani::any();
    let l = (e as u64 + 1).ilog2(); // floor(log2(e + 1))
    let std_shift = if l > 5 { l - 5 } else { 0 };
    assert!(((e as u64 + 1) >> 5).checked_ilog2().unwrap_or(0) == std_shift, "[C03] shift == max(0, floor(log2(err_sum + 1)) - 5)");
    let sw: u32 = kani::any();
    kani::assume(sw >= 16); // every weight is >= 4
    assert!((sw as u64 >> 4).ilog2() == (sw as u64).ilog2() + 1 - 5, "[C03] log_weight - 5 == floor(log2(sum_weights)) + 1 - 5");
}

/// sub-predictions and max_error == H.5 in mathematical integers, for every state
#[kani::proof]
#[kani::unwind(66)]
fn wp_subpred_spec_contract() {
    let sc = any_sc_state();
    let (n, nw, ne, w, nn): (i32, i32, i32, i32, i32) = kani::any();
    let r = sc.predict(n, nw, ne, w, nn);
    let (subpred, max_error) = spec_wp_subpred(&sc.wp, sc.true_err_w as i64, sc.true_err_n as i64, sc.true_err_nw as i64, sc.true_err_ne as i64,
        n as i64, nw as i64, ne as i64, w as i64, nn as i64);
    assert!(r.subpred[0] == subpred[0] && r.subpred[1] == subpred[1] && r.subpred[2] == subpred[2] && r.subpred[3] == subpred[3],
        "[C03] the four sub-predictions == H.5");
    assert!(r.max_error as i64 == max_error, "[C03] max_error == H.5");
    kani::cover!(max_error == sc.true_err_ne as i64 && max_error != sc.true_err_w as i64);
}

/// weighted prediction == H.5 (error2weight, normalisation, rounding, clamp).
/// NOT REGISTERED: CBMC (CaDiCaL, Kissat, Z3) does not close the equivalence of the two 64-bit multiply-accumulate
/// chains within 15 min, neither for a symbolic header nor for the default header; kept as the transcription to
/// resume from. What is decided about predict(): totality (wp_predict_total_contract) and the sub-predictions /
/// max_error (wp_subpred_spec_contract).
#[kani::proof]
#[kani::unwind(66)]
fn wp_prediction_spec_contract() {
    let sc = any_sc_state_with(default_wp_header());
    let (n, nw, ne, w, nn): (i32, i32, i32, i32, i32) = kani::any();
    let mut err_sum = [0u32; 4];
    let mut i = 0;
    while i < 4 {
        let e = sc.subpred_err_nw_ww[i] as u64 + sc.subpred_err_n_w[i] as u64 + sc.subpred_err_ne[i] as u64;
        // premise: the accumulated sub-predictor errors are representable in the u32 the code keeps them in
        kani::assume(e <= u32::MAX as u64);
        err_sum[i] = e as u32;
        i += 1;
    }
    let r = sc.predict(n, nw, ne, w, nn);
    let want = spec_wp_prediction(&sc.wp, r.subpred, sc.true_err_w as i64, sc.true_err_n as i64, sc.true_err_nw as i64, err_sum, n as i64, ne as i64, w as i64);
    assert!(r.prediction == want, "[C03] weighted prediction == H.5 (error2weight, normalisation, rounding, clamp)");
    kani::cover!(want != w as i64 * 8 && want != n as i64 * 8 && want != ne as i64 * 8);
    kani::cover!(err_sum[0] > 1 << 20);
}

// ------------------------------------------------------------------------------------------------
// Properties 16.. : previous channels (H.4):  for every earlier channel of the same geometry, nearest first,
//   rC = prev(x, y); rW = x > 0 ? prev(x-1, y) : 0; rN = y > 0 ? prev(x, y-1) : rW;
//   rNW = x > 0 && y > 0 ? prev(x-1, y-1) : rW; rG = clamp(rW + rN - rNW, min(rW, rN), max(rW, rN));
//   properties: abs(rC), rC, abs(rC - rG), rC - rG.
// Sample values of a previous channel are whatever the stream decoded: any value of the buffer type.
// ------------------------------------------------------------------------------------------------
fn spec_extra_property(idx: usize, rc: i64, rw: i64, rn: i64, rnw: i64) -> i64 {
    let lo = if rw < rn { rw } else { rn };
    let hi = if rw < rn { rn } else { rw };
    let g = rw + rn - rnw;
    let rg = if g < lo { lo } else if g > hi { hi } else { g };
    match idx {
        0 => abs64(rc),
        1 => rc,
        2 => abs64(rc - rg),
        _ => rc - rg,
    }
}

fn extra_properties<S: Sample + kani::Arbitrary>(exclude_int32_min: bool) {
    let mut buf: [S; 4] = kani::any();
    let vals = [buf[0].to_i64(), buf[1].to_i64(), buf[2].to_i64(), buf[3].to_i64()];
    if exclude_int32_min {
        // NOT a call-site guarantee: rC == -2^31 makes `c.abs()` (predictor.rs:507) panic in overflow-checked builds.
        // That totality defect is reported by extra_properties_i32_contract (C01); this variant carries the functional
        // (C03) content for every other value.
        kani::assume(vals[0] != i32::MIN as i64 && vals[1] != i32::MIN as i64 && vals[2] != i32::MIN as i64 && vals[3] != i32::MIN as i64);
    }
    let grid = MutableSubgrid::from_buf(&mut buf[..], 2, 2, 2);
    let mut st = PredictorState::<S>::new();
    st.reset(2, &[&grid], None);
    let x: usize = kani::any();
    let y: usize = kani::any();
    kani::assume(x < 2 && y < 2);
    st.x = x as u32;
    st.y = y as u32;
    let props = Properties::new::<true>(&mut st, None);
    let e: usize = kani::any();
    kani::assume(e < 8);
    let got = props.get(16 + e); // must not panic for any sample value
    let prev = |xx: usize, yy: usize| vals[yy * 2 + xx];
    let rc = prev(x, y);
    let rw = if x > 0 { prev(x - 1, y) } else { 0 };
    let rn = if y > 0 { prev(x, y - 1) } else { rw };
    let rnw = if x > 0 && y > 0 { prev(x - 1, y - 1) } else { rw };
    if e < 4 {
        assert!(got == spec_extra_property(e, rc, rw, rn, rnw) as i32,
            "[C03,C12,C01] previous-channel property == the standard's value wrapped to 32 bits");
    } else {
        assert!(got == 0, "[C03,C01] properties beyond the available previous channels are 0");
    }
    kani::cover!(e == 2 && x == 1 && y == 1 && got > 0);
    kani::cover!(e == 3 && x == 0 && y == 1 && got != 0);
}

#[kani::proof]
#[kani::unwind(4)]
fn extra_properties_i16_contract() {
    extra_properties::<i16>(false)
}

#[kani::proof]
#[kani::unwind(4)]
fn extra_properties_i32_contract() {
    extra_properties::<i32>(false)
}

#[kani::proof]
#[kani::unwind(4)]
fn extra_properties_i32_values_contract() {
    extra_properties::<i32>(true)
}
