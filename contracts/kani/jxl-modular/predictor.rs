// placeholder
use super::*;
