// Contracts for crates/jxl-modular/src/transform/palette.rs (child module of `transform::palette`): the per-sample
// arithmetic of the inverse palette transform (18181-1 H.6.4). Reference semantics: libjxl
// lib/jxl/modular/transform/palette.h `GetPaletteValue` and palette.cc `InvPalette`.
//
//   GetPaletteValue(palette, index, c, palette_size = nb_colours, bit_depth):
//     index < 0 (delta palette entry):
//         c >= 3 -> 0
//         index = -(index + 1);  index %= 143   (= 1 + 2 * (72 - 1))
//         result = kDeltaPalette[(index + 1) >> 1][c] * kMultiplier[index & 1],  kMultiplier = {-1, 1}
//         if (bit_depth > 8) result *= 1 << (bit_depth - 8)
//     nb_colours <= index < nb_colours + 64 (implicit 4x4x4 cube):
//         c >= 3 -> 0
//         index -= nb_colours; index >>= 2 * c
//         result = (index % 4) * ((1 << bit_depth) - 1) / 4 + (1 << max(0, bit_depth - 3))     (64-bit arithmetic)
//     nb_colours + 64 <= index (implicit 5x5x5 cube):
//         c >= 3 -> 0
//         index -= nb_colours + 64;  c == 1: index /= 5;  c == 2: index /= 25
//         result = (index % 5) * ((1 << bit_depth) - 1) / 4                                     (64-bit arithmetic)
//     otherwise: palette[c][index]                                  (palette meta channel: nb_colours wide, num_c high)
//   InvPalette: bit_depth = min(image bit depth, 24); for every pixel and every channel c < num_c
//         value = GetPaletteValue(...);  if (index < nb_deltas) value += prediction of predictor d_pred at (x, y) in channel c,
//         computed from the already reconstructed samples of that channel (negative indices are always < nb_deltas).
//
// Where the references are NOT unanimous (documented per obligation):
//   * c >= 3 in the two implicit cubes: libjxl returns 0; the formula text the code was transcribed from has no such case
//     (the code evaluates the formula for every c). The obligations follow libjxl (orchestrator decision).
//   * bit depth > 24: libjxl clamps the bit depth to 24 for EVERY branch (InvPalette, recalled from memory, ~75 % sure);
//     the code clamps in the delta branch only (as the standard's pseudo-code does: `min(bitdepth, 24) - 8`). Hence value
//     obligations are stated for 1..=24 (both references agree), for 25..=29 the cube values are pinned to the unclamped
//     formula in mathematical integers (what the standard's text and the property statement say), and 30..=32 is a pure
//     totality (C01) question: the code's i32 arithmetic overflows there.
//   * kDeltaPalette is transcribed below; I have no copy of the standard, so the table's independence from the code is
//     limited to my recollection of libjxl's table (it guards against edits of the code's table, not against a common typo).
//
//   * num_c == 1 && nb_deltas == 0 && d_pred == Zero: libjxl's InvPalette (recalled from memory) CLAMPS the index to
//     [0, nb_colours - 1] instead of producing implicit entries; the standard's pseudo-code and the code do not. Not claimed
//     either way: mt.pal_value_gray states GetPaletteValue semantics (what the code does).
//
// Findings on the unchanged tree (each is an obligation that fails today and should pass on correct code):
//   F1 (C03) `is_simple` ignores nb_deltas: if every index is explicit, entries below nb_deltas get no prediction
//            (pal_delta_all_explicit_*; witness palette = [-1], nb_deltas >= 1, d_pred = West, indices [0, 0] -> want [-1, -2], got [-1, -1]).
//   F2 (C03) c >= 3 in the implicit cubes is not 0 (pal_value_extra_small_cube / _large_cube;
//            witness nb_colours 2, index 10, bit depth 20, c = 3 -> got 1 << 17, libjxl 0).
//   F3 (C01) `index >> (2 * c)` overflows the shift for c >= 16 (pal_total_many_channels).
//   F4 (C01) bit depth 30, 31 (integer) and 32 (float): `(1i32 << bit_depth) - 1` and the product with 3 / 4 overflow in both
//            implicit cubes (pal_total_hibd; witness nb_colours 1, index 31, bit depth 32).
//
// Preconditions and where the real call sites establish them:
//   * palette grid = nb_colours x num_c (transform.rs:48-54 prepare_meta_channels), targets = num_c grids of one size
//     (transform.rs:233-238 equal-size check, 260-276), num_c >= 1 (transform.rs:151);
//   * bit_depth = metadata bits_per_sample: 1..=31 integer, up to 32 float (jxl-image/src/lib.rs:517-541);
//   * nb_colours <= 70911, nb_deltas <= 66816 (transform.rs:152-153); indices are ANY i32 the stream decoded.
use super::*;

#[rustfmt::skip]
const SPEC_DELTA_PALETTE: [[i64; 3]; 72] = [
    [0, 0, 0], [4, 4, 4], [11, 0, 0], [0, 0, -13], [0, -12, 0], [-10, -10, -10],
    [-18, -18, -18], [-27, -27, -27], [-18, -18, 0], [0, 0, -32], [-32, 0, 0], [-37, -37, -37],
    [0, -32, -32], [24, 24, 45], [50, 50, 50], [-45, -24, -24], [-24, -45, -45], [0, -24, -24],
    [-34, -34, 0], [-24, 0, -24], [-45, -45, -24], [64, 64, 64], [-32, 0, -32], [0, -32, 0],
    [-32, 0, 32], [-24, -45, -24], [45, 24, 45], [24, -24, -45], [-45, -24, 24], [80, 80, 80],
    [64, 0, 0], [0, 0, -64], [0, -64, -64], [-24, -24, 45], [96, 96, 96], [64, 64, 0],
    [45, -24, -24], [34, -34, 0], [112, 112, 112], [24, -45, -45], [45, 45, -24], [0, -32, 32],
    [24, -24, 45], [0, 96, 96], [45, -24, 24], [24, -45, -24], [-24, -45, 24], [0, -64, 0],
    [96, 0, 0], [128, 128, 128], [64, 0, 64], [144, 144, 144], [96, 96, 0], [-36, -36, 36],
    [45, -24, -45], [45, -45, -24], [0, 0, -96], [0, 128, 128], [0, 96, 0], [45, 24, -45],
    [-128, 0, 0], [24, -45, 24], [-45, 24, -45], [64, 0, -64], [64, -64, -64], [96, 0, 96],
    [45, -45, 24], [24, 45, -45], [64, 64, -64], [128, 128, 0], [0, 0, -128], [-24, 45, -45],
];

/// libjxl GetPaletteValue in mathematical integers; `bit_depth` is the value InvPalette passes.
/// Index arithmetic (index - nb_colours - 64, Idiv 5, Umod) is done on i32 with CHECKED operations: every intermediate is
/// representable (a failed check would be a harness defect), so the result is the mathematical one; sample values are
/// computed in i64. (Measured: comparing the code's 32-bit dividers with 64-bit dividers of the spec does not close.)
/// The 5x5x5 cube divides by 5 once per channel (`for (i = 0; i < c; i++) index = index Idiv 5`), which equals libjxl's
/// `/ 5` (c = 1) and `/ 25` (c = 2).
fn spec_palette_value<const NC: usize, const NBC: usize>(index: i32, c: usize, bit_depth: u32, palette: &[[i32; NBC]; NC]) -> i64 {
    let nbc = NBC as i32;
    let scale = (1i64 << bit_depth) - 1;
    if index < 0 {
        if c >= 3 {
            return 0;
        }
        let i = index.checked_add(1).unwrap().checked_neg().unwrap() % 143;
        let mult = if i & 1 == 1 { 1 } else { -1 };
        let mut r = SPEC_DELTA_PALETTE[((i + 1) >> 1) as usize][c] * mult;
        if bit_depth > 8 {
            r <<= bit_depth - 8; // r * 2^(bit_depth - 8), written as a shift (a 64-bit symbolic multiplier does not close)
        }
        r
    } else if index < nbc {
        palette[c][index as usize] as i64
    } else if index - nbc < 64 {
        if c >= 3 {
            return 0;
        }
        let i = (index - nbc) >> (2 * c);
        let offs = if bit_depth > 3 { bit_depth - 3 } else { 0 };
        ((i % 4) as i64) * scale / 4 + (1i64 << offs)
    } else {
        if c >= 3 {
            return 0;
        }
        let mut i = index - nbc - 64;
        let mut k = 0;
        while k < c {
            i /= 5;
            k += 1;
        }
        ((i % 5) as i64) * scale / 4
    }
}

/// bit depth InvPalette hands to GetPaletteValue
fn spec_effective_bit_depth(bit_depth: u32) -> u32 {
    if bit_depth < 24 { bit_depth } else { 24 }
}

#[derive(Clone, Copy, PartialEq, Eq)]
enum Branch {
    All,
    Explicit,
    Delta,
    SmallCube,
    LargeCube,
}

fn in_branch(b: Branch, index: i32, nbc: i32) -> bool {
    match b {
        Branch::All => true,
        Branch::Explicit => index >= 0 && index < nbc,
        Branch::Delta => index < 0,
        Branch::SmallCube => index >= nbc && (index as i64) < nbc as i64 + 64,
        Branch::LargeCube => (index as i64) >= nbc as i64 + 64,
    }
}

const PAL_BUF: usize = 16;

/// The target grids as ONE boxed array literal (`vec![..]`). Measured: a Vec filled by `push` (or by array::map) makes CBMC's
/// symbolic execution lose the constants stored in the grids (width, height, stride, pointers), every loop of the function
/// under contract is then unwound to the bound and NC = 3 does not finish in 300 s; with the literal it takes seconds.
fn make_targets<'a, const NC: usize, const PX: usize>(chans: &'a mut [[i32; PX]; NC], width: usize) -> Vec<MutableSubgrid<'a, i32>> {
    let mut it = chans.iter_mut();
    let mut g = || MutableSubgrid::from_buf(&mut it.next().unwrap()[..], width, PX / width, width);
    match NC {
        1 => vec![g()],
        2 => vec![g(), g()],
        3 => vec![g(), g(), g()],
        5 => vec![g(), g(), g(), g(), g()],
        17 => vec![g(), g(), g(), g(), g(), g(), g(), g(), g(), g(), g(), g(), g(), g(), g(), g(), g()],
        _ => unreachable!(),
    }
}

/// Runs the real `inverse_inner` on NC channels of PX pixels (one row), palette NBC x NC. Returns the channel buffers.
fn run_inverse<const NC: usize, const NBC: usize, const PX: usize>(
    palette: &[[i32; NBC]; NC],
    chans: [[i32; PX]; NC],
    width: usize,
    nb_deltas: u32,
    d_pred: Predictor,
    bit_depth: u32,
) -> [[i32; PX]; NC] {
    assert!(NC * NBC <= PAL_BUF && PX % width == 0);
    let mut pal_buf = [0i32; PAL_BUF];
    let mut c = 0;
    while c < NC {
        let mut i = 0;
        while i < NBC {
            pal_buf[c * NBC + i] = palette[c][i];
            i += 1;
        }
        c += 1;
    }
    let mut chans = chans;
    {
        let mut empty: [i32; 0] = [];
        let empty_grid = MutableSubgrid::from_buf(&mut empty[..], 0, NC, 0);
        let palette_grid = if NBC == 0 {
            empty_grid.as_shared() // what AlignedGrid::with_alloc_tracker(0, num_c) yields (transform.rs:50)
        } else {
            SharedSubgrid::from_buf(&pal_buf[..NC * NBC], NBC, NC, NBC)
        };
        let targets = make_targets::<NC, PX>(&mut chans, width);
        let pal = Palette {
            begin_c: 0,
            num_c: NC as u32,
            nb_colours: NBC as u32,
            nb_deltas,
            d_pred,
            wp_header: None,
        };
        pal.inverse_inner::<i32>(palette_grid, targets, bit_depth);
    }
    chans
}

/// value contract: d_pred = Zero (prediction 0), so every sample must equal GetPaletteValue exactly.
/// `branches[p]` restricts the kind of entry pixel p refers to.
fn palette_value_case<const NC: usize, const NBC: usize, const PX: usize>(bd_lo: u32, bd_hi: u32, branches: [Branch; PX], only_extra_channels: bool, idx_lo: i32) {
    let palette: [[i32; NBC]; NC] = kani::any();
    let chans: [[i32; PX]; NC] = kani::any();
    let bit_depth: u32 = kani::any();
    kani::assume(bit_depth >= bd_lo && bit_depth <= bd_hi);
    let nb_deltas: u32 = kani::any();
    kani::assume(nb_deltas <= 1281 + 65535);
    let mut i = 0;
    while i < PX {
        kani::assume(in_branch(branches[i], chans[0][i], NBC as i32) && chans[0][i] >= idx_lo);
        i += 1;
    }
    let out = run_inverse::<NC, NBC, PX>(&palette, chans, PX, nb_deltas, Predictor::Zero, bit_depth);
    let p: usize = kani::any();
    let c: usize = kani::any();
    kani::assume(p < PX && c < NC);
    if only_extra_channels {
        kani::assume(c >= 3);
    }
    let index = chans[0][p];
    let bd = spec_effective_bit_depth(bit_depth);
    let want = spec_palette_value::<NC, NBC>(index, c, bd, &palette);
    if index < 0 {
        assert!(out[c][p] as i64 == want, "[C03] delta palette entry: kDeltaPalette[(i+1)>>1][c], negated for even i = (-(index+1)) % 143, scaled by 1 << (min(bitdepth, 24) - 8) above 8 bit, 0 for c >= 3");
    } else if (index as i64) < NBC as i64 {
        assert!(out[c][p] as i64 == want, "[C03] explicit palette entry: palette meta channel (index, c)");
    } else if (index as i64) < NBC as i64 + 64 {
        assert!(out[c][p] as i64 == want, "[C03] implicit 4x4x4 cube entry: ((index >> 2c) % 4) * ((1 << bitdepth) - 1) / 4 + (1 << max(0, bitdepth - 3)) for c < 3, 0 for c >= 3");
    } else {
        assert!(out[c][p] as i64 == want, "[C03] implicit 5x5x5 cube entry: ((index / 5^c) % 5) * ((1 << bitdepth) - 1) / 4 for c < 3, 0 for c >= 3");
    }
    let mut has = [false; 5]; // which kinds of entry this instantiation admits
    let mut i = 0;
    while i < PX {
        match branches[i] {
            Branch::All => has = [true; 5],
            Branch::Explicit => has[1] = true,
            Branch::Delta => has[2] = true,
            Branch::SmallCube => has[3] = true,
            Branch::LargeCube => has[4] = true,
        }
        i += 1;
    }
    let cc = c < 3 || only_extra_channels;
    kani::cover!(!has[2] || (index < 0 && index != -1 && cc && bit_depth > 8 && (bit_depth < 25 || c >= 3 || want != 0)));
    kani::cover!(!has[2] || (index < 0 && (index.wrapping_add(1).wrapping_neg() % 143) & 1 == 1));
    kani::cover!(!has[2] || index == idx_lo);
    kani::cover!(!has[1] || NBC == 0 || (index >= 0 && (index as i64) < NBC as i64));
    kani::cover!(!has[3] || (index as i64 - NBC as i64 == 63));
    kani::cover!(!has[4] || (index as i64 - NBC as i64 - 64 == 124));
    kani::cover!(!has[4] || index == i32::MAX);
}

macro_rules! palette_value_harness {
    ($name:ident, $unwind:literal, $nc:literal, $nbc:literal, $px:literal, $lo:literal, $hi:literal, $branches:expr, $extra:literal) => {
        palette_value_harness!($name, $unwind, $nc, $nbc, $px, $lo, $hi, $branches, $extra, i32::MIN);
    };
    ($name:ident, $unwind:literal, $nc:literal, $nbc:literal, $px:literal, $lo:literal, $hi:literal, $branches:expr, $extra:literal, $idx_lo:expr) => {
        #[kani::proof]
        #[kani::unwind($unwind)]
        fn $name() {
            palette_value_case::<$nc, $nbc, $px>($lo, $hi, $branches, $extra, $idx_lo);
        }
    };
}

// three channels (c < 3: every reference agrees), bit depth 1..=24
// two pixels, both explicit: the fast path `inverse_simple`
palette_value_harness!(pal_value_rgb_explicit, 5, 3, 2, 2, 1, 24, [Branch::Explicit, Branch::Explicit], false);
// two pixels, one explicit, one implicit: explicit entries on the slow path
palette_value_harness!(pal_value_rgb_mixed, 4, 2, 2, 2, 1, 24, [Branch::Explicit, Branch::SmallCube], false); // two channels: c = 0, 1
// delta entries: the two `% 143` (code / spec) over all 2^31 negative indices take ~5 min to match, hence a 16-bit index range
// in the quick tier and the full range in the thorough tier
palette_value_harness!(pal_value_rgb_delta, 5, 3, 2, 1, 1, 24, [Branch::Delta], false, -65536);
palette_value_harness!(pal_value_rgb_delta_full, 5, 3, 2, 1, 1, 24, [Branch::Delta], false);
palette_value_harness!(pal_value_rgb_small_cube, 5, 3, 2, 1, 1, 24, [Branch::SmallCube], false);
palette_value_harness!(pal_value_rgb_large_cube, 5, 3, 2, 1, 1, 24, [Branch::LargeCube], false);
// empty palette (nb_colours = 0: zero-width palette grid), every non-negative index is implicit
palette_value_harness!(pal_value_rgb_nbc0_small, 5, 3, 0, 1, 1, 24, [Branch::SmallCube], false);
palette_value_harness!(pal_value_rgb_nbc0_large, 5, 3, 0, 1, 1, 24, [Branch::LargeCube], false);
// single channel (num_c = 1)
palette_value_harness!(pal_value_gray, 4, 1, 3, 1, 1, 24, [Branch::All], false);
// channels c >= 3 (libjxl: 0 for every implicit entry)
palette_value_harness!(pal_value_extra_explicit, 7, 5, 2, 1, 1, 24, [Branch::Explicit], true);
palette_value_harness!(pal_value_extra_delta, 7, 5, 2, 1, 1, 24, [Branch::Delta], true);
palette_value_harness!(pal_value_extra_small_cube, 7, 5, 2, 1, 1, 24, [Branch::SmallCube], true);
palette_value_harness!(pal_value_extra_large_cube, 7, 5, 2, 1, 1, 24, [Branch::LargeCube], true);
// high bit depths: delta entries use min(bitdepth, 24) in both references
palette_value_harness!(pal_value_hibd_delta, 5, 3, 1, 1, 25, 32, [Branch::Delta], false, -65536);
palette_value_harness!(pal_value_hibd_explicit, 5, 3, 1, 1, 25, 32, [Branch::Explicit], false);

/// implicit cube entries at bit depth 25..=29: the formula at the UNCLAMPED bit depth, mathematical integers (see header)
fn palette_cube_hibd_case(branch: Branch) {
    let palette: [[i32; 1]; 3] = kani::any();
    let chans: [[i32; 1]; 3] = kani::any();
    let bit_depth: u32 = kani::any();
    kani::assume(bit_depth >= 25 && bit_depth <= 29);
    kani::assume(in_branch(branch, chans[0][0], 1));
    let out = run_inverse::<3, 1, 1>(&palette, chans, 1, 0, Predictor::Zero, bit_depth);
    let c: usize = kani::any();
    kani::assume(c < 3);
    let want = spec_palette_value::<3, 1>(chans[0][0], c, bit_depth, &palette);
    assert!(out[c][0] as i64 == want, "[C03] implicit cube entry at bit depth 25..=29 == the formula at the unclamped bit depth in mathematical integers");
    kani::cover!(bit_depth == 29 && want > (1i64 << 28));
}

#[kani::proof]
#[kani::unwind(5)]
fn pal_value_hibd_small_cube() {
    palette_cube_hibd_case(Branch::SmallCube);
}

#[kani::proof]
#[kani::unwind(5)]
fn pal_value_hibd_large_cube() {
    palette_cube_hibd_case(Branch::LargeCube);
}

/// totality: every index, every bit depth the image header can carry, no panic (C01); d_pred = Zero
fn palette_total_case<const NC: usize, const NBC: usize>(bd_lo: u32, bd_hi: u32) {
    let palette: [[i32; NBC]; NC] = kani::any();
    let chans: [[i32; 1]; NC] = kani::any();
    let bit_depth: u32 = kani::any();
    kani::assume(bit_depth >= bd_lo && bit_depth <= bd_hi);
    let nb_deltas: u32 = kani::any();
    kani::assume(nb_deltas <= 1281 + 65535);
    let out = run_inverse::<NC, NBC, 1>(&palette, chans, 1, nb_deltas, Predictor::Zero, bit_depth);
    let index = chans[0][0];
    if index >= 0 && (index as i64) < NBC as i64 {
        let c: usize = kani::any();
        kani::assume(c < NC);
        assert!(out[c][0] == palette[c][index as usize], "[C03] explicit palette entry: palette meta channel (index, c)");
    }
    kani::cover!(index as i64 >= NBC as i64 + 64 && bit_depth == bd_hi);
    kani::cover!(index as i64 >= NBC as i64 && (index as i64) < NBC as i64 + 64 && bit_depth == bd_hi);
    kani::cover!(index < 0);
}

#[kani::proof]
#[kani::unwind(5)]
fn pal_total_hibd() {
    // 30, 31: integer samples; 32: float samples (bits_per_sample = 32)
    palette_total_case::<3, 1>(25, 32);
}

#[kani::proof]
#[kani::unwind(20)]
fn pal_total_many_channels() {
    // num_c = 17 (the parser allows up to 8192): `index >> (2 * c)` for c = 16
    palette_total_case::<17, 0>(1, 24);
}

// ------------------------------------------------------------------------------------------------
// delta palette: prediction added to the entries with index < nb_deltas
// ------------------------------------------------------------------------------------------------
fn spec_predict(pred: Predictor, w: i64, n: i64, nw: i64) -> i64 {
    match pred {
        Predictor::Zero => 0,
        Predictor::West => w,
        Predictor::North => n,
        Predictor::AvgWestAndNorth => (w + n) / 2,
        Predictor::Select => {
            if (n - nw).abs() < (w - nw).abs() { w } else { n }
        }
        Predictor::Gradient => {
            let lo = if w < n { w } else { n };
            let hi = if w < n { n } else { w };
            let g = w + n - nw;
            if g < lo { lo } else if g > hi { hi } else { g }
        }
        Predictor::NorthWest => nw,
        _ => unreachable!(),
    }
}

/// NC channels of a W x (PX / W) image, palette of NBC = 1 colour, 8 bit. The relation is stated on the OUTPUT image: each
/// sample is its palette value plus, iff index < nb_deltas, the prediction from the output samples W, N, NW (H.3 edge rules).
///
/// `all_explicit` splits the input space by the code's dispatch: true = every index is an explicit entry (0 <= index <
/// nb_colours; the code then takes `inverse_simple`), false = at least one index is not (slow path). Both halves carry the
/// same postcondition. On the unchanged tree the `true` half FAILS: `is_simple` ignores nb_deltas, so an image whose indices
/// are all explicit gets no prediction although index < nb_deltas (witness in the registry row mt.pal_delta_all_explicit).
fn palette_delta_case<const NC: usize, const PX: usize>(w_img: usize, pred: Predictor, all_explicit: bool, idx_abs_max: i32) {
    let palette: [[i32; 1]; NC] = kani::any();
    let chans: [[i32; PX]; NC] = kani::any();
    let nb_deltas: u32 = kani::any();
    kani::assume(nb_deltas <= 1281 + 65535);
    let mut every = true;
    let mut i = 0;
    while i < PX {
        every = every && chans[0][i] == 0; // nb_colours = 1
        kani::assume(chans[0][i] >= -idx_abs_max && chans[0][i] <= idx_abs_max);
        i += 1;
    }
    kani::assume(every == all_explicit);
    let out = run_inverse::<NC, 1, PX>(&palette, chans, w_img, nb_deltas, pred, 8);
    let h_img = PX / w_img;
    let x: usize = kani::any();
    let y: usize = kani::any();
    let c: usize = kani::any();
    kani::assume(x < w_img && y < h_img && c < NC);
    let at = |xx: usize, yy: usize| out[c][yy * w_img + xx] as i64;
    let w = if x > 0 { at(x - 1, y) } else if y > 0 { at(x, y - 1) } else { 0 };
    let n = if y > 0 { at(x, y - 1) } else { w };
    let nw = if x > 0 && y > 0 { at(x - 1, y - 1) } else { w };
    let index = chans[0][y * w_img + x];
    let base = spec_palette_value::<NC, 1>(index, c, 8, &palette);
    let is_delta = (index as i64) < nb_deltas as i64;
    let want = if is_delta { base + spec_predict(pred, w, n, nw) } else { base };
    assert!(out[c][y * w_img + x] == want as i32, "[C03] sample = palette value + (index < nb_deltas ? d_pred prediction from the reconstructed W, N, NW : 0), wrapped to 32 bits");
    kani::cover!(is_delta && index >= 0 && x + 1 == w_img && y + 1 == h_img);
    kani::cover!(all_explicit || (!is_delta && x + 1 == w_img && y + 1 == h_img && (chans[0][0] as i64) < nb_deltas as i64));
    kani::cover!(all_explicit || (is_delta && index < 0 && x + 1 == w_img && y + 1 == h_img));
    kani::cover!(is_delta && x == 0 && y == 0 && PX > 1);
    kani::cover!(!is_delta && x + 1 == w_img && y + 1 == h_img);
}

macro_rules! palette_delta_harness {
    ($name:ident, $nc:literal, $px:literal, $w:literal, $pred:expr, $all_explicit:literal, $idx:expr) => {
        #[kani::proof]
        #[kani::unwind(6)]
        fn $name() {
            palette_delta_case::<$nc, $px>($w, $pred, $all_explicit, $idx);
        }
    };
}
// quick tier: |index| <= 255 (delta entries, the explicit entry, the whole 4x4x4 cube and 190 entries of the 5x5x5 cube)
palette_delta_harness!(pal_delta_pred_west_2x1_small, 1, 2, 2, Predictor::West, false, 255);
palette_delta_harness!(pal_delta_pred_north_1x2_small, 1, 2, 1, Predictor::North, false, 255);
// thorough tier: every i32 index
palette_delta_harness!(pal_delta_pred_west_2x1, 1, 2, 2, Predictor::West, false, i32::MAX);
palette_delta_harness!(pal_delta_pred_north_1x2, 1, 2, 1, Predictor::North, false, i32::MAX);
palette_delta_harness!(pal_delta_pred_west_2x1_2ch, 2, 2, 2, Predictor::West, false, 255); // two channels: the predictor state restarts per channel
palette_delta_harness!(pal_delta_pred_avg_2x1, 1, 2, 2, Predictor::AvgWestAndNorth, false, i32::MAX);
// NOT registered (measured): a 2x2 image (the smallest with a real NW neighbour, e.g. Gradient / Select) makes `need_delta` grow by
// four conditional pushes that are read back afterwards; CBMC exceeds 14 GB within 90 s. Three-neighbour routing of the predictor
// state itself is covered by md.pred_neighbours_* (predictor.rs).
// every index explicit (fast path): same postcondition
palette_delta_harness!(pal_delta_all_explicit_west_2x1, 1, 2, 2, Predictor::West, true, i32::MAX);
palette_delta_harness!(pal_delta_all_explicit_north_1x2, 1, 2, 1, Predictor::North, true, i32::MAX);
