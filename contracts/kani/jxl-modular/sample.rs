// Contracts for crates/jxl-modular/src/sample.rs (child module of `sample`).
//
// `Sample` / `Sealed` are the per-sample arithmetic of the Modular decoder:
//   value = unpack_signed_u32(token).wrapping_muladd_i32(multiplier, offset).add(from_i32(prediction))
// (image.rs decode_one, lines 882-890).  Token, multiplier, offset and prediction come from the
// (untrusted) stream, so every method is specified over its WHOLE input domain.
//
// spec_* functions are the standard's definitions in mathematical integers (i64 / i128):
//   UnpackSigned (18181-1 9.2.6), clamped gradient (H.4, predictor 5), and "two's complement
//   wrap to the buffer width" for add / mul-add (the decoder stores samples in int32 / int16 buffers).
//
// C12 premise ("the stream truthfully declares that 16-bit buffers suffice"): the only thing the call
// site establishes is the header flag `modular_16bit_buffers` (jxl-render/src/lib.rs:280
// narrow_modular).  Its meaning in the standard is that every sample value the 32-bit decoder stores
// fits in int16.  So the contract is
//   (a) for ALL inputs: i16 method == (i32 method on the sign-extended inputs) truncated to 16 bits
//       (ring homomorphism Z/2^32 -> Z/2^16: intermediate values may leave i16 and come back), hence
//   (b) whenever the i32 result fits in i16, the i16 result IS the i32 result.
use super::*;

/// PackSigned (encoder side of UnpackSigned, 18181-1 9.2.6): 2v for v >= 0, -2v-1 for v < 0.
pub(crate) fn spec_pack_signed(v: i32) -> u32 {
    let v = v as i64;
    (if v >= 0 { 2 * v } else { -2 * v - 1 }) as u32
}

/// UnpackSigned in mathematical integers.
pub(crate) fn spec_unpack_signed(u: u32) -> i64 {
    let u = u as i64;
    if u & 1 == 0 { u / 2 } else { -(u + 1) / 2 }
}

/// clamp(W + N - NW, min(W, N), max(W, N)) in mathematical integers.
pub(crate) fn spec_grad_clamped(n: i64, w: i64, nw: i64) -> i64 {
    let lo = if w < n { w } else { n };
    let hi = if w < n { n } else { w };
    let g = w + n - nw;
    if g < lo { lo } else if g > hi { hi } else { g }
}

pub(crate) fn fits16(v: i64) -> bool {
    v >= i16::MIN as i64 && v <= i16::MAX as i64
}

#[kani::proof]
fn canary() {
    let a: i32 = kani::any();
    assert!(<i32 as Sealed>::add(a, 1) != 77, "canary: must fail");
}

// ------------------------------------------------------------------------------------------------
// i32 implementation == the standard's arithmetic, total on all inputs
// ------------------------------------------------------------------------------------------------
#[kani::proof]
fn sample_i32_spec() {
    let u: u32 = kani::any();
    let r = <i32 as Sealed>::unpack_signed_u32(u);
    assert!(r as i64 == spec_unpack_signed(u), "[C03,C01] i32::unpack_signed_u32 == UnpackSigned for every u32");

    let a: i32 = kani::any();
    let b: i32 = kani::any();
    let s = <i32 as Sealed>::add(a, b);
    assert!(s == (a as i64 + b as i64) as i32, "[C03,C01] i32::add is the sum wrapped to 32 bits");
    if (a as i64 + b as i64) >= i32::MIN as i64 && (a as i64 + b as i64) <= i32::MAX as i64 {
        assert!(s as i64 == a as i64 + b as i64, "[C03] i32::add is exact when the sum fits in int32");
    }

    let mul: i32 = kani::any();
    let add: i32 = kani::any();
    let m = <i32 as Sealed>::wrapping_muladd_i32(a, mul, add);
    let exact = a as i128 * mul as i128 + add as i128;
    assert!(m == exact as i32, "[C03,C01] i32::wrapping_muladd_i32 == a*mul+add wrapped to 32 bits");
    kani::cover!(exact > i32::MAX as i128);

    let n: i32 = kani::any();
    let w: i32 = kani::any();
    let nw: i32 = kani::any();
    let g = <i32 as Sealed>::grad_clamped(n, w, nw);
    assert!(g as i64 == spec_grad_clamped(n as i64, w as i64, nw as i64),
        "[C03,C01] i32::grad_clamped == clamp(W+N-NW, min(W,N), max(W,N)) in mathematical integers");
    kani::cover!((w as i64 + n as i64 - nw as i64) > i32::MAX as i64);

    // conversions
    assert!(<i32 as Sample>::from_i32(a) == a && <i32 as Sample>::to_i32(a) == a, "[C03,C01] i32 conversions are the identity");
    assert!(<i32 as Sample>::to_i64(a) == a as i64, "[C03,C01] to_i64 sign-extends");
    assert!(<i32 as Sample>::from_u32(u) == u as i32, "[C03,C01] from_u32 reinterprets");
    let f = <i32 as Sample>::to_f32(a);
    assert!(f == a as f32 && f.is_finite(), "[C01] to_f32 total");
}

// ------------------------------------------------------------------------------------------------
// UnpackSigned o PackSigned == id (both widths)
// ------------------------------------------------------------------------------------------------
#[kani::proof]
fn sample_unpack_inverts_pack() {
    let v: i32 = kani::any();
    assert!(<i32 as Sealed>::unpack_signed_u32(spec_pack_signed(v)) == v,
        "[C03] i32::unpack_signed_u32(PackSigned(v)) == v for every i32");
    let u: u32 = kani::any();
    assert!(spec_pack_signed(<i32 as Sealed>::unpack_signed_u32(u)) == u, "[C03] i32::unpack_signed_u32 is a bijection");

    let h: i16 = kani::any();
    assert!(<i16 as Sealed>::unpack_signed_u32(spec_pack_signed(h as i32)) == h,
        "[C03,C12] i16::unpack_signed_u32(PackSigned(v)) == v for every value that fits in int16");
    kani::cover!(h == i16::MIN);
}

// ------------------------------------------------------------------------------------------------
// C12: i16 implementation vs i32 implementation
// ------------------------------------------------------------------------------------------------
#[kani::proof]
fn sample_i16_matches_i32() {
    // unpack_signed_u32 -- all 2^32 tokens
    let u: u32 = kani::any();
    let r16 = <i16 as Sealed>::unpack_signed_u32(u);
    let r32 = <i32 as Sealed>::unpack_signed_u32(u);
    assert!(r16 == r32 as i16, "[C12,C01] i16::unpack_signed_u32 == i32 result truncated to 16 bits, for every token");
    if fits16(r32 as i64) {
        assert!(r16 as i32 == r32, "[C12] i16::unpack_signed_u32 == i32::unpack_signed_u32 whenever the value fits in int16");
    }
    kani::cover!(fits16(r32 as i64) && r32 < 0);
    kani::cover!(!fits16(r32 as i64));

    // add
    let a: i16 = kani::any();
    let b: i16 = kani::any();
    let s16 = <i16 as Sealed>::add(a, b);
    let s32 = <i32 as Sealed>::add(a as i32, b as i32);
    assert!(s16 == s32 as i16, "[C12,C01] i16::add == i32::add truncated to 16 bits (wrapping, not saturating)");
    if fits16(s32 as i64) {
        assert!(s16 as i32 == s32, "[C12] i16::add == i32::add whenever the sum fits in int16");
    }
    kani::cover!(!fits16(s32 as i64));

    // grad_clamped -- result lies between w and n, so it always fits: no premise needed
    let n: i16 = kani::any();
    let w: i16 = kani::any();
    let nw: i16 = kani::any();
    let g16 = <i16 as Sealed>::grad_clamped(n, w, nw);
    let g32 = <i32 as Sealed>::grad_clamped(n as i32, w as i32, nw as i32);
    assert!(g16 as i32 == g32, "[C12,C01] i16::grad_clamped == i32::grad_clamped for all int16 neighbours");
    assert!(g16 as i64 == spec_grad_clamped(n as i64, w as i64, nw as i64), "[C03,C12] i16::grad_clamped == clamped gradient of the standard");
    kani::cover!(!fits16(w as i64 + n as i64 - nw as i64));

    // conversions
    let x: i32 = kani::any();
    assert!(<i16 as Sample>::from_i32(x) == x as i16, "[C12,C01] from_i32 truncates");
    if fits16(x as i64) {
        assert!(<i16 as Sample>::to_i32(<i16 as Sample>::from_i32(x)) == <i32 as Sample>::to_i32(<i32 as Sample>::from_i32(x)),
            "[C12] from_i32/to_i32 round-trips every value that fits in int16");
    }
    assert!(<i16 as Sample>::from_u32(u) == u as i16, "[C12,C01] from_u32 truncates");
    assert!(<i16 as Sample>::to_i32(a) == a as i32 && <i16 as Sample>::to_i64(a) == a as i64, "[C12,C01] widening conversions sign-extend");
    assert!(<i16 as Sample>::to_f32(a) == <i32 as Sample>::to_f32(a as i32), "[C12,C01] to_f32 agrees");
}

/// wrapping_muladd_i32: multiplier and offset are full i32 values of the MA-tree leaf (image.rs:887).
/// A 16x32-bit multiplier equivalence does not close with SAT (CaDiCaL / Kissat > 300 s); Z3's
/// bit-vector rewriting closes it in 2 s.
#[kani::proof]
#[kani::solver(z3)]
fn sample_i16_muladd_matches_i32() {
    let a: i16 = kani::any();
    let mul: i32 = kani::any();
    let add: i32 = kani::any();
    let m16 = <i16 as Sealed>::wrapping_muladd_i32(a, mul, add);
    let m32 = <i32 as Sealed>::wrapping_muladd_i32(a as i32, mul, add);
    assert!(m16 == m32 as i16, "[C12,C01] i16::wrapping_muladd_i32 == i32 result truncated to 16 bits, for every sample / multiplier / offset");
    // corollary (pure truncation fact, no multiplier involved): if m32 fits in int16 then m32 as i16 as i32 == m32,
    // i.e. the i16 result IS the i32 result.  Not asserted separately: the extra case split makes Z3 time out.
    let x: i32 = kani::any();
    if fits16(x as i64) {
        assert!((x as i16) as i32 == x, "[C12] truncation to 16 bits is the identity on values that fit in int16");
    }
}
