// Contracts for crates/jxl-modular/src/transform.rs (child module of `transform`): the parameter / channel-list
// bookkeeping of the three Modular transforms (18181-1 H.6; the reference semantics used for the specs below is
// libjxl: lib/jxl/modular/transform/{squeeze.cc: DefaultSqueezeParameters, CheckMetaSqueezeParams, MetaSqueeze;
// palette.cc/.h: MetaPalette, CheckEqualChannels; transform.cc: Transform::MetaApply}).
//
// (1) DefaultSqueezeParameters (used when num_sq == 0), image = channel list, nb_meta = image.nb_meta_channels:
//        nb_channels = channel.size() - nb_meta;  w, h = size of channel[nb_meta];  wide = (w > h)
//        if (nb_channels > 2 && channel[nb_meta + 1] has size w x h)             -- "4:2:0 chroma" steps
//            push (horizontal = true , in_place = false, begin_c = nb_meta + 1, num_c = 2)
//            push (horizontal = false, in_place = false, begin_c = nb_meta + 1, num_c = 2)
//        P = (in_place = true, begin_c = nb_meta, num_c = nb_channels)
//        if (!wide && h > 8) { push P with horizontal = false; h = (h + 1) / 2 }  -- tall or SQUARE: vertical first
//        while (w > 8 || h > 8) { if (w > 8) { push P horizontal;  w = (w + 1) / 2 }
//                                 if (h > 8) { push P vertical;    h = (h + 1) / 2 } }
// (2) MetaSqueeze, one step (horizontal, in_place, begin_c, num_c), endc = begin_c + num_c - 1:
//        fail if begin_c >= size or endc >= size                                  (CheckMetaSqueezeParams)
//        if (begin_c < nb_meta) { fail if endc >= nb_meta; fail if !in_place; nb_meta += num_c }
//        offset = in_place ? endc + 1 : size
//        for c in begin_c..=endc: fail if hshift > 30 or vshift > 30; fail if w == 0 or h == 0;
//            horizontal: channel[c].w = (w + 1) / 2, hshift++ if hshift >= 0, residual = (w - (w + 1) / 2) x h
//            vertical  : channel[c].h = (h + 1) / 2, vshift++ if vshift >= 0, residual = w x (h - (h + 1) / 2)
//            residual takes the (updated) shifts of channel[c]; inserted at offset + (c - begin_c)
// (3) MetaPalette (begin_c, num_c, nb_colours), endc = begin_c + num_c - 1:
//        fail if endc >= size; fail if begin_c < nb_meta && endc >= nb_meta; fail unless all of begin_c..=endc have the
//        size of channel[begin_c];   nb_meta += (begin_c < nb_meta) ? 2 - num_c : 1;
//        erase channels begin_c + 1 ..= endc; insert at position 0 a channel nb_colours x num_c with hshift = vshift = -1
// (4) RCT MetaApply (begin_c): fail if begin_c + 2 >= size, fail unless the three channels have the same size; the
//        channel list is unchanged.
//
// What the code accepts beyond libjxl (reported, the contracts below specify the code's acceptance set):
//   * libjxl's CheckEqualChannels also compares hshift / vshift (Palette and RCT) -- the code compares sizes only;
//   * libjxl's CheckEqualChannels rejects an RCT that spans meta and non-meta channels -- the code does not look at
//     nb_meta_channels for RCT;
//   * libjxl rejects rct_type >= 42 while reading the transform -- the code accepts every value U32(6, u(2), 2+u(4),
//     10+u(6)) can produce (<= 73); permutation = rct_type / 7 >= 6 is then treated as the identity permutation.
//
// Preconditions used below and where the real code establishes them:
//   * the channel list is never empty and nb_meta_channels < info.len(): lib.rs:44 (no ModularData for an empty
//     channel list), lib.rs:151 (nb_meta_channels = 0 initially); every transform preserves it (proved here as a
//     postcondition of the Palette and Squeeze steps);
//   * field ranges of the parsed parameters: transform.rs:117-133, 150-154 (U32 distributions): begin_c <= 9287,
//     squeeze num_c in 1..=19, palette num_c in 1..=8192, nb_colours <= 70911, nb_deltas <= 66816.
use super::*;
use crate::{ChannelShift, ModularChannels};

fn mk_info(w: u32, h: u32, hs: i32, vs: i32, ow: u32, oh: u32) -> ModularChannelInfo {
    ModularChannelInfo {
        width: w,
        height: h,
        original_width: ow,
        original_height: oh,
        hshift: hs,
        vshift: vs,
        original_shift: ChannelShift::Raw(hs, vs),
    }
}

/// Abstract view of a channel: what the standard's channel list carries.
#[derive(Clone, Copy, PartialEq, Eq)]
struct Ch {
    w: u32,
    h: u32,
    hs: i32,
    vs: i32,
    ow: u32,
    oh: u32,
}

impl Ch {
    fn any() -> Self {
        Ch { w: kani::any(), h: kani::any(), hs: kani::any(), vs: kani::any(), ow: kani::any(), oh: kani::any() }
    }
    fn of(i: &ModularChannelInfo) -> Self {
        Ch { w: i.width, h: i.height, hs: i.hshift, vs: i.vshift, ow: i.original_width, oh: i.original_height }
    }
    fn info(&self) -> ModularChannelInfo {
        mk_info(self.w, self.h, self.hs, self.vs, self.ow, self.oh)
    }
}

/// The channel list as one boxed array literal (`vec![..]`): CBMC's symbolic execution keeps constants (here: the list length)
/// through it, while a Vec filled by `push` is 2-4x slower to verify (measured on the palette harnesses).
fn mk_channels<const N: usize>(chs: &[Ch; N], nb_meta: u32) -> ModularChannels {
    let g = |i: usize| chs[i].info();
    let info = match N {
        1 => vec![g(0)],
        2 => vec![g(0), g(1)],
        3 => vec![g(0), g(1), g(2)],
        4 => vec![g(0), g(1), g(2), g(3)],
        5 => vec![g(0), g(1), g(2), g(3), g(4)],
        _ => unreachable!(),
    };
    ModularChannels { info, nb_meta_channels: nb_meta }
}

// ------------------------------------------------------------------------------------------------
// (1) default squeeze parameters
// ------------------------------------------------------------------------------------------------
#[derive(Clone, Copy, PartialEq, Eq)]
struct SpecSq {
    horizontal: bool,
    in_place: bool,
    begin_c: u32,
    num_c: u32,
}

const MAX_DEFAULT_STEPS: usize = 64; // 2 chroma + at most 29 halvings per direction for 32-bit sizes

/// DefaultSqueezeParameters of libjxl, sizes in u64 so that (w + 1) / 2 is the mathematical value.
fn spec_default_squeeze(nb_meta: u32, nb_total: u32, w0: u32, h0: u32, next_same_size: bool) -> ([SpecSq; MAX_DEFAULT_STEPS], usize) {
    let mut out = [SpecSq { horizontal: false, in_place: false, begin_c: 0, num_c: 0 }; MAX_DEFAULT_STEPS];
    let mut n = 0;
    let nb_channels = nb_total - nb_meta;
    let mut w = w0 as u64;
    let mut h = h0 as u64;
    let wide = w > h;
    if nb_channels > 2 && next_same_size {
        out[n] = SpecSq { horizontal: true, in_place: false, begin_c: nb_meta + 1, num_c: 2 };
        n += 1;
        out[n] = SpecSq { horizontal: false, in_place: false, begin_c: nb_meta + 1, num_c: 2 };
        n += 1;
    }
    let p = SpecSq { horizontal: false, in_place: true, begin_c: nb_meta, num_c: nb_channels };
    if !wide && h > 8 {
        out[n] = SpecSq { horizontal: false, ..p };
        n += 1;
        h = (h + 1) / 2;
    }
    while w > 8 || h > 8 {
        if w > 8 {
            out[n] = SpecSq { horizontal: true, ..p };
            n += 1;
            w = (w + 1) / 2;
        }
        if h > 8 {
            out[n] = SpecSq { horizontal: false, ..p };
            n += 1;
            h = (h + 1) / 2;
        }
    }
    (out, n)
}

/// Closed form: number of halvings (v -> ceil(v / 2)) until v <= 8, i.e. the least k with v <= 8 * 2^k.
fn spec_halvings(v: u32) -> usize {
    if v <= 8 { 0 } else { (32 - (v - 1).leading_zeros()) as usize - 3 }
}

/// N channels, META of them meta channels; the sizes of all channels are symbolic and <= `bound`.
/// `cap` = capacity of the (empty) parameter vector the parser produced (0 in the real decoder; a larger value only
/// spares CBMC the reallocations and is not observable by the function).
fn default_params_case<const N: usize, const META: u32>(bound: u32, cap: usize) {
    let mut chs = [Ch::any(); N];
    let mut i = 0;
    while i < N {
        chs[i] = Ch::any();
        kani::assume(chs[i].w <= bound && chs[i].h <= bound);
        i += 1;
    }
    let channels = mk_channels::<N>(&chs, META);
    let mut sq = Squeeze { num_sq: 0, sp: Vec::with_capacity(cap) };
    sq.set_default_params(&channels);

    let first = META as usize;
    let (w0, h0) = (chs[first].w, chs[first].h);
    let next_same = first + 1 < N && chs[first + 1].w == w0 && chs[first + 1].h == h0;
    let (spec, n) = spec_default_squeeze(META, N as u32, w0, h0, next_same);
    assert!(sq.sp.len() == n, "[C03] number of default squeeze steps == DefaultSqueezeParameters");
    let k: usize = kani::any();
    if k < n {
        let got = &sq.sp[k];
        assert!(got.horizontal == spec[k].horizontal, "[C03] default squeeze step k: direction (tall or square image: vertical first; wide: horizontal first)");
        assert!(got.in_place == spec[k].in_place, "[C03] default squeeze step k: in_place (false only for the two chroma steps)");
        assert!(got.begin_c == spec[k].begin_c && got.num_c == spec[k].num_c, "[C03] default squeeze step k: channel range");
    }

    // closed-form cross-check of the specification itself and of the code against it
    let chroma = if N - first > 2 && next_same { 2 } else { 0 };
    assert!(n == chroma + spec_halvings(w0) + spec_halvings(h0), "[C03] steps = chroma steps + halvings of w and of h down to 8");
    if n > chroma {
        let first_dir_horizontal = sq.sp[chroma].horizontal;
        assert!(first_dir_horizontal == (w0 > 8 && (w0 > h0 || h0 <= 8)),
            "[C03] first full-image step is horizontal iff the image is wide (w > h), or the height needs no squeeze");
    }
    assert!(channels.info.len() == N && channels.nb_meta_channels == META, "[C03] channel list untouched by set_default_params");
    kani::cover!(n == 0);
    kani::cover!(n > chroma + 1 && w0 == h0);
    kani::cover!(n > chroma + 1 && w0 > h0 && h0 > 8);
    kani::cover!(n > chroma + 1 && w0 < h0 && w0 > 8);
    kani::cover!(N - first <= 2 || chroma == 2);
    kani::cover!(chroma == 0);
}

/// explicit parameters (num_sq > 0) are never replaced
fn default_params_keeps_explicit() {
    let chs = [Ch::any(), Ch::any(), Ch::any()];
    let channels = mk_channels::<3>(&chs, 0);
    let s = SqueezeParams { horizontal: kani::any(), in_place: kani::any(), begin_c: kani::any(), num_c: kani::any() };
    let keep = (s.horizontal, s.in_place, s.begin_c, s.num_c);
    let mut sq = Squeeze { num_sq: 1, sp: vec![s] };
    sq.set_default_params(&channels);
    assert!(sq.sp.len() == 1, "[C03] explicit squeeze parameters are kept (defaults only when num_sq == 0)");
    let g = &sq.sp[0];
    assert!((g.horizontal, g.in_place, g.begin_c, g.num_c) == keep, "[C03] explicit squeeze parameters are kept unchanged");
}

// Vec::push model. `set_default_params` pushes a path-dependent number of steps; with the library `push` every call drags the
// reallocation path into the formula and reading the vector back afterwards does not fit into 14 GB (measured: 3 channels,
// sizes <= 64). The model is `push` for a vector whose capacity is known to suffice (it FAILS an assertion otherwise); the
// harnesses pre-reserve the parameter vector (an empty Vec with spare capacity is indistinguishable, for the function under
// contract, from the capacity-0 Vec the parser produces). Needs `#![feature(allocator_api)]` (crate_attrs in the registry).
// Equivalence of model and library push: vec_push_real_contract / vec_push_model_contract (same deterministic postcondition).
pub(crate) fn push_model<T, A: core::alloc::Allocator>(v: &mut Vec<T, A>, x: T) {
    let l = v.len();
    assert!(l < v.capacity(), "push_model: capacity suffices");
    unsafe {
        v.as_mut_ptr().add(l).write(x);
        v.set_len(l + 1);
    }
}

fn check_push(model: bool) {
    let mut v: Vec<SqueezeParams> = Vec::with_capacity(4);
    let l0: usize = kani::any();
    kani::assume(l0 <= 3);
    let init: [(bool, bool, u32, u32); 3] = kani::any();
    let mut i = 0;
    while i < 3 {
        if i < l0 {
            unsafe {
                v.as_mut_ptr().add(i).write(SqueezeParams { horizontal: init[i].0, in_place: init[i].1, begin_c: init[i].2, num_c: init[i].3 });
            }
        }
        i += 1;
    }
    unsafe { v.set_len(l0) };
    let x: (bool, bool, u32, u32) = kani::any();
    let xs = SqueezeParams { horizontal: x.0, in_place: x.1, begin_c: x.2, num_c: x.3 };
    if model {
        push_model(&mut v, xs);
    } else {
        v.push(xs);
    }
    let view = |s: &SqueezeParams| (s.horizontal, s.in_place, s.begin_c, s.num_c);
    assert!(v.len() == l0 + 1 && view(&v[l0]) == x, "x is appended");
    assert!((l0 < 1 || view(&v[0]) == init[0]) && (l0 < 2 || view(&v[1]) == init[1]) && (l0 < 3 || view(&v[2]) == init[2]), "earlier elements kept");
    kani::cover!(l0 == 3);
    kani::cover!(l0 == 0);
}

#[kani::proof]
#[kani::unwind(5)]
fn vec_push_real_contract() {
    check_push(false);
}

#[kani::proof]
#[kani::unwind(5)]
fn vec_push_model_contract() {
    check_push(true);
}

// Step-for-step equality, sizes <= 1024 (at most 2 + 7 + 7 steps).
macro_rules! default_params_harness {
    ($name:ident, $unwind:literal, $bound:expr, $cap:expr, $(($n:literal, $meta:literal)),+) => {
        #[kani::proof]
        #[kani::unwind($unwind)]
        #[kani::stub(std::vec::Vec::push, push_model)]
        fn $name() {
            $(default_params_case::<$n, $meta>($bound, $cap);)+
        }
    };
}
default_params_harness!(sq_default_params_gray, 10, 1024, 20, (1, 0));
default_params_harness!(sq_default_params_rgb, 10, 1024, 20, (3, 0));
default_params_harness!(sq_default_params_meta, 10, 1024, 20, (4, 1), (3, 1)); // palette meta channel + 3 resp. 2 channels
default_params_harness!(sq_default_params_rgba, 10, 1024, 20, (4, 0), (2, 0));
// thorough: all 32-bit sizes (at most 2 + 29 + 29 steps)
default_params_harness!(sq_default_params_full_rgb, 34, u32::MAX, MAX_DEFAULT_STEPS, (3, 0));
default_params_harness!(sq_default_params_64k_rgb, 16, 65536, 32, (3, 0));

#[kani::proof]
#[kani::unwind(5)]
fn sq_default_params_explicit() {
    default_params_keeps_explicit();
}

/// Number of steps only (the step contents are not read back): cheap enough for ALL 32-bit sizes with the push model and for
/// sizes <= 64 with the library `push` on the vector exactly as the parser leaves it (capacity 0, real growth path).
fn default_params_count<const N: usize, const META: u32>(bound: u32, cap: usize) {
    let mut chs = [Ch::any(); N];
    let mut i = 0;
    while i < N {
        chs[i] = Ch::any();
        kani::assume(chs[i].w <= bound && chs[i].h <= bound);
        i += 1;
    }
    let channels = mk_channels::<N>(&chs, META);
    let mut sq = Squeeze { num_sq: 0, sp: Vec::with_capacity(cap) };
    sq.set_default_params(&channels);
    let first = META as usize;
    let (w0, h0) = (chs[first].w, chs[first].h);
    let next_same = first + 1 < N && chs[first + 1].w == w0 && chs[first + 1].h == h0;
    let chroma = if N - first > 2 && next_same { 2 } else { 0 };
    assert!(sq.sp.len() == chroma + spec_halvings(w0) + spec_halvings(h0),
        "[C03,C01] number of default squeeze steps = chroma steps + halvings of w and of h down to 8");
    kani::cover!(sq.sp.len() == 0);
    kani::cover!(sq.sp.len() == 8 || bound > 64);
    kani::cover!(sq.sp.len() == 60 || bound < u32::MAX);
}

#[kani::proof]
#[kani::unwind(34)]
#[kani::stub(std::vec::Vec::push, push_model)]
fn sq_default_params_count_full() {
    default_params_count::<3, 0>(u32::MAX, MAX_DEFAULT_STEPS);
}

#[kani::proof]
#[kani::unwind(6)]
fn sq_default_params_count_realvec() {
    default_params_count::<3, 0>(64, 0);
}

// ------------------------------------------------------------------------------------------------
// (2) one squeeze step on the channel list
// ------------------------------------------------------------------------------------------------
fn ceil_half(v: u32) -> u32 {
    ((v as u64 + 1) / 2) as u32
}

/// MetaSqueeze of libjxl for one step on a list of N channels; M = N + num_c. Err(()) = the stream is rejected.
fn spec_meta_squeeze<const N: usize, const M: usize>(
    inp: &[Ch; N],
    nb_meta: u32,
    horizontal: bool,
    in_place: bool,
    begin_c: u32,
    num_c: u32,
) -> core::result::Result<([Ch; M], u32), ()> {
    let size = N as u32;
    if begin_c >= size || begin_c + num_c - 1 >= size {
        return Err(());
    }
    let endc = begin_c + num_c - 1;
    let mut nb_meta = nb_meta;
    if begin_c < nb_meta {
        if endc >= nb_meta || !in_place {
            return Err(());
        }
        nb_meta += num_c;
    }
    let offset = if in_place { endc + 1 } else { size };
    let zero = Ch { w: 0, h: 0, hs: 0, vs: 0, ow: 0, oh: 0 };
    let mut out = [zero; M];
    // positions of the old channels in the new list
    let mut i = 0;
    while i < N {
        let pos = if (i as u32) < offset { i } else { i + num_c as usize };
        out[pos] = inp[i];
        i += 1;
    }
    let mut c = begin_c;
    while c <= endc {
        let mut ch = inp[c as usize];
        if ch.hs > 30 || ch.vs > 30 {
            return Err(());
        }
        if ch.w == 0 || ch.h == 0 {
            return Err(());
        }
        let mut res = ch;
        if horizontal {
            res.w = ch.w - ceil_half(ch.w);
            ch.w = ceil_half(ch.w);
            if ch.hs >= 0 {
                ch.hs += 1;
            }
        } else {
            res.h = ch.h - ceil_half(ch.h);
            ch.h = ceil_half(ch.h);
            if ch.vs >= 0 {
                ch.vs += 1;
            }
        }
        res.hs = ch.hs;
        res.vs = ch.vs;
        out[c as usize] = ch;
        out[(offset + (c - begin_c)) as usize] = res;
        c += 1;
    }
    Ok((out, nb_meta))
}

fn squeeze_step_case<const N: usize, const M: usize, const BEGIN: u32, const NUM: u32, const IN_PLACE: bool>() {
    let mut chs = [Ch::any(); N];
    let mut i = 0;
    while i < N {
        chs[i] = Ch::any();
        i += 1;
    }
    let nb_meta: u32 = kani::any();
    kani::assume((nb_meta as usize) < N); // invariant, see header
    let horizontal: bool = kani::any();
    let mut channels = mk_channels::<N>(&chs, nb_meta);
    let sq = Squeeze {
        num_sq: 1,
        sp: vec![SqueezeParams { horizontal, in_place: IN_PLACE, begin_c: BEGIN, num_c: NUM }],
    };
    let r = sq.transform_channel_info::<i16>(&mut channels, None);
    let spec = spec_meta_squeeze::<N, M>(&chs, nb_meta, horizontal, IN_PLACE, BEGIN, NUM);
    match (&r, &spec) {
        (Ok(()), Ok((list, meta))) => {
            assert!(channels.info.len() == M, "[C03] a squeeze step adds num_c residual channels");
            assert!(channels.nb_meta_channels == *meta, "[C03] nb_meta_channels += num_c iff the step squeezes meta channels");
            assert!((channels.nb_meta_channels as usize) < channels.info.len(), "[C03,C01] invariant nb_meta_channels < number of channels is preserved");
            let k: usize = kani::any();
            kani::assume(k < M);
            let got = Ch::of(&channels.info[k]);
            assert!(got.w == list[k].w && got.h == list[k].h,
                "[C03] channel sizes after the step: squeezed = ceil half, residual = floor half, residuals right after endc (in place) or at the end");
            assert!(got.hs == list[k].hs && got.vs == list[k].vs, "[C03] channel shifts after the step (incremented in the squeezed direction unless negative)");
            assert!(got.ow == list[k].ow && got.oh == list[k].oh, "[C03] a residual inherits the original size of the channel it was split from; others keep theirs");
        }
        (Err(e), Err(())) => {
            assert!(matches!(e, Error::InvalidSqueezeParams), "[C03] rejected squeeze parameters give InvalidSqueezeParams");
        }
        (Ok(()), Err(())) => assert!(false, "[C03] squeeze step accepted although MetaSqueeze rejects it"),
        (Err(_), Ok(_)) => assert!(false, "[C03] squeeze step rejected although MetaSqueeze accepts it"),
    }
}

macro_rules! squeeze_step_harness {
    ($name:ident, $(($m:literal, $b:literal, $n:literal, $ip:literal)),+) => {
        #[kani::proof]
        #[kani::unwind(6)]
        fn $name() {
            $(squeeze_step_case::<3, $m, $b, $n, $ip>();)+
        }
    };
}
// in place (one instantiation costs ~100 s when channels after endc have to be moved)
squeeze_step_harness!(sq_meta_step_ip_b0n1, (4, 0, 1, true));
squeeze_step_harness!(sq_meta_step_ip_b0n2, (5, 0, 2, true));
squeeze_step_harness!(sq_meta_step_ip_b1n1, (4, 1, 1, true));
squeeze_step_harness!(sq_meta_step_ip_tail, (6, 0, 3, true), (5, 1, 2, true), (4, 2, 1, true));
squeeze_step_harness!(sq_meta_step_ip_range, (7, 0, 4, true), (5, 2, 2, true), (4, 3, 1, true));
// residuals appended
squeeze_step_harness!(sq_meta_step_app_b0, (4, 0, 1, false), (5, 0, 2, false), (6, 0, 3, false));
squeeze_step_harness!(sq_meta_step_app_b12, (4, 1, 1, false), (5, 1, 2, false), (4, 2, 1, false));
squeeze_step_harness!(sq_meta_step_app_range, (7, 0, 4, false), (5, 2, 2, false), (4, 3, 1, false));

#[kani::proof]
#[kani::unwind(6)]
fn sq_meta_step_covers() {
    // vacuity guards for the two harnesses above, on one representative instantiation each
    let chs = [Ch::any(), Ch::any(), Ch::any()];
    let nb_meta: u32 = kani::any();
    kani::assume(nb_meta < 3);
    let in_place: bool = kani::any();
    let horizontal: bool = kani::any();
    let r = spec_meta_squeeze::<3, 5>(&chs, nb_meta, horizontal, in_place, 0, 2);
    kani::cover!(r.is_ok() && nb_meta == 2 && in_place);
    kani::cover!(r.is_ok() && nb_meta == 0 && !in_place);
    kani::cover!(r.is_err() && nb_meta == 1);
    kani::cover!(r.is_err() && nb_meta == 0 && chs[1].w == 0);
    kani::cover!(r.is_err() && nb_meta == 0 && chs[0].hs == 31);
    let mut channels = mk_channels::<3>(&chs, nb_meta);
    let sq = Squeeze { num_sq: 1, sp: vec![SqueezeParams { horizontal, in_place, begin_c: 0, num_c: 2 }] };
    let got = sq.transform_channel_info::<i16>(&mut channels, None);
    kani::cover!(got.is_ok() && horizontal && chs[0].w % 2 == 1);
    kani::cover!(got.is_ok() && !horizontal);
    kani::cover!(got.is_err());
    assert!(got.is_ok() == r.is_ok(), "[C03] acceptance == MetaSqueeze");
}

// ------------------------------------------------------------------------------------------------
// (3) palette: channel list rewrite
// ------------------------------------------------------------------------------------------------
fn spec_meta_palette<const N: usize, const M: usize>(
    inp: &[Ch; N],
    nb_meta: u32,
    begin_c: u32,
    num_c: u32,
    nb_colours: u32,
) -> core::result::Result<([Ch; M], u32), ()> {
    let size = N as u32;
    if begin_c + num_c > size {
        return Err(());
    }
    let endc = begin_c + num_c - 1;
    if begin_c < nb_meta && endc >= nb_meta {
        return Err(());
    }
    let mut c = begin_c + 1;
    while c <= endc {
        if inp[c as usize].w != inp[begin_c as usize].w || inp[c as usize].h != inp[begin_c as usize].h {
            return Err(());
        }
        c += 1;
    }
    let new_meta = if begin_c < nb_meta { nb_meta + 2 - num_c } else { nb_meta + 1 };
    let mut out = [Ch { w: 0, h: 0, hs: 0, vs: 0, ow: 0, oh: 0 }; M];
    out[0] = Ch { w: nb_colours, h: num_c, hs: -1, vs: -1, ow: nb_colours, oh: num_c };
    let mut i = 0;
    let mut pos = 1;
    while i < N {
        if (i as u32) <= begin_c || (i as u32) > endc {
            out[pos] = inp[i];
            pos += 1;
        }
        i += 1;
    }
    Ok((out, new_meta))
}

fn palette_meta_case<const N: usize, const M: usize, const BEGIN: u32, const NUM: u32>() {
    let mut chs = [Ch::any(); N];
    let mut i = 0;
    while i < N {
        chs[i] = Ch::any();
        i += 1;
    }
    let nb_meta: u32 = kani::any();
    kani::assume((nb_meta as usize) < N);
    let nb_colours: u32 = kani::any();
    let nb_deltas: u32 = kani::any();
    kani::assume(nb_colours <= 5376 + 65535 && nb_deltas <= 1281 + 65535); // transform.rs:152-153
    let mut channels = mk_channels::<N>(&chs, nb_meta);
    let pal = Palette { begin_c: BEGIN, num_c: NUM, nb_colours, nb_deltas, d_pred: Predictor::Zero, wp_header: None };
    let r = pal.transform_channel_info::<i16>(&mut channels, &mut Vec::new(), None);
    let spec = spec_meta_palette::<N, M>(&chs, nb_meta, BEGIN, NUM, nb_colours);
    match (&r, &spec) {
        (Ok(()), Ok((list, meta))) => {
            assert!(channels.info.len() == M, "[C03] palette replaces num_c channels by one index channel and adds the palette meta channel");
            assert!(channels.nb_meta_channels == *meta, "[C03] nb_meta_channels: +1, or +2 - num_c when the palette is applied to meta channels");
            assert!((channels.nb_meta_channels as usize) < channels.info.len(), "[C03,C01] invariant nb_meta_channels < number of channels is preserved");
            let k: usize = kani::any();
            kani::assume(k < M);
            let got = Ch::of(&channels.info[k]);
            assert!(got.w == list[k].w && got.h == list[k].h, "[C03] channel list after palette: [nb_colours x num_c palette] ++ old list without begin_c+1..=endc");
            assert!(got.hs == list[k].hs && got.vs == list[k].vs, "[C03] palette meta channel has shift -1; the other channels keep their shifts");
            assert!(got.ow == list[k].ow && got.oh == list[k].oh, "[C03] original sizes are carried along");
        }
        (Err(e), Err(())) => {
            assert!(matches!(e, Error::InvalidPaletteParams), "[C03] rejected palette parameters give InvalidPaletteParams");
        }
        (Ok(()), Err(())) => assert!(false, "[C03] palette accepted although MetaPalette rejects it"),
        (Err(_), Ok(_)) => assert!(false, "[C03] palette rejected although MetaPalette accepts it"),
    }
    let in_range = BEGIN + NUM <= N as u32;
    let meta_possible = BEGIN + NUM < N as u32; // begin_c..=endc can lie inside the meta channels (nb_meta < N)
    kani::cover!(r.is_ok() || !in_range);
    kani::cover!((r.is_ok() && BEGIN < nb_meta) || !meta_possible);
    kani::cover!(r.is_err() || NUM == 1);
}

macro_rules! palette_meta_harness {
    ($name:ident, $(($m:literal, $b:literal, $n:literal)),+) => {
        #[kani::proof]
        #[kani::unwind(6)]
        fn $name() {
            $(palette_meta_case::<4, $m, $b, $n>();)+
        }
    };
}
palette_meta_harness!(palette_meta_b0a, (5, 0, 1), (4, 0, 2));
palette_meta_harness!(palette_meta_b0b, (3, 0, 3), (2, 0, 4));
palette_meta_harness!(palette_meta_b1, (5, 1, 1), (3, 1, 3));
palette_meta_harness!(palette_meta_b23, (4, 2, 2), (5, 3, 1));
palette_meta_harness!(palette_meta_range, (1, 0, 5), (4, 3, 2), (5, 4, 1));

// ------------------------------------------------------------------------------------------------
// (4) RCT: validation only
// ------------------------------------------------------------------------------------------------
fn rct_meta_case<const N: usize, const BEGIN: u32>() {
    let mut chs = [Ch::any(); N];
    let mut i = 0;
    while i < N {
        chs[i] = Ch::any();
        i += 1;
    }
    let nb_meta: u32 = kani::any();
    kani::assume((nb_meta as usize) < N);
    let rct_type: u32 = kani::any();
    kani::assume(rct_type <= 10 + 63); // transform.rs:118
    let mut channels = mk_channels::<N>(&chs, nb_meta);
    let rct = Rct { begin_c: BEGIN, rct_type };
    let r = rct.transform_channel_info(&mut channels);
    let b = BEGIN as usize;
    let expect_ok = b + 3 <= N
        && chs[b].w == chs[(b + 1) % N].w && chs[b].h == chs[(b + 1) % N].h
        && chs[b].w == chs[(b + 2) % N].w && chs[b].h == chs[(b + 2) % N].h;
    assert!(r.is_ok() == expect_ok, "[C03] RCT accepted iff begin_c + 2 is a channel and the three channels have the same size");
    if let Err(e) = &r {
        assert!(matches!(e, Error::InvalidRctParams), "[C03] rejected RCT parameters give InvalidRctParams");
    }
    assert!(channels.info.len() == N && channels.nb_meta_channels == nb_meta, "[C03] RCT does not change the channel list");
    let k: usize = kani::any();
    kani::assume(k < N);
    assert!(Ch::of(&channels.info[k]) == chs[k], "[C03] RCT does not change any channel");
    kani::cover!(r.is_ok() || b + 3 > N);
    kani::cover!(r.is_err());
}

#[kani::proof]
#[kani::unwind(6)]
fn rct_meta_contract() {
    rct_meta_case::<4, 0>();
    rct_meta_case::<4, 1>();
    rct_meta_case::<4, 2>();
    rct_meta_case::<3, 0>();
    rct_meta_case::<2, 0>();
}

// ------------------------------------------------------------------------------------------------
// (5) two explicit steps in sequence (the loop over the step list): the chroma steps of the default sequence
// ------------------------------------------------------------------------------------------------
#[kani::proof]
#[kani::unwind(6)]
fn sq_meta_two_steps() {
    let chs = [Ch::any(), Ch::any(), Ch::any()];
    let mut channels = mk_channels::<3>(&chs, 0);
    let sq = Squeeze {
        num_sq: 2,
        sp: vec![
            SqueezeParams { horizontal: true, in_place: false, begin_c: 1, num_c: 2 },
            SqueezeParams { horizontal: false, in_place: false, begin_c: 1, num_c: 2 },
        ],
    };
    let r = sq.transform_channel_info::<i16>(&mut channels, None);
    let s1 = spec_meta_squeeze::<3, 5>(&chs, 0, true, false, 1, 2);
    let s2 = match &s1 {
        Ok((l1, m1)) => spec_meta_squeeze::<5, 7>(l1, *m1, false, false, 1, 2),
        Err(()) => Err(()),
    };
    assert!(r.is_ok() == s2.is_ok(), "[C03] a step list is accepted iff every step is accepted on the list its predecessors produced");
    if let Ok((list, meta)) = &s2 {
        assert!(channels.info.len() == 7 && channels.nb_meta_channels == *meta, "[C03] two steps over 2 channels add 4 residual channels");
        let k: usize = kani::any();
        kani::assume(k < 7);
        let got = Ch::of(&channels.info[k]);
        assert!(got == list[k], "[C03] the steps are applied in list order, each to the channel list left by the previous one");
    }
    kani::cover!(r.is_ok());
    kani::cover!(r.is_err() && s1.is_ok());
}

// ------------------------------------------------------------------------------------------------
// (6) what the parsers accept: the field ranges the obligations above (and palette.rs) assume
// ------------------------------------------------------------------------------------------------
#[kani::proof]
#[kani::unwind(4)]
fn parse_rct_ranges() {
    let data: [u8; 8] = kani::any(); // longest form: 2 + 13 + 2 + 6 bits
    let mut bs = Bitstream::new(&data);
    let r = Rct::parse(&mut bs, ());
    assert!(r.is_ok(), "[C03,C01] every bit pattern is an Rct bundle");
    if let Ok(r) = &r {
        assert!(r.begin_c <= 1096 + 8191, "[C03] begin_c = U32(u(3), 8 + u(6), 72 + u(10), 1096 + u(13))");
        assert!(r.rct_type <= 10 + 63, "[C03] rct_type = U32(6, u(2), 2 + u(4), 10 + u(6))");
        kani::cover!(r.rct_type == 6 && r.begin_c == 0);
        kani::cover!(r.rct_type >= 42); // accepted: NO range check (libjxl rejects rct_type >= 42)
        kani::cover!(r.rct_type == 73 && r.begin_c == 9287);
    }
}

#[kani::proof]
#[kani::unwind(4)]
fn parse_squeeze_params_ranges() {
    let data: [u8; 8] = kani::any(); // longest form: 1 + 1 + 2 + 13 + 2 + 4 bits
    let mut bs = Bitstream::new(&data);
    let r = SqueezeParams::parse(&mut bs, ());
    assert!(r.is_ok(), "[C03,C01] every bit pattern is a SqueezeParams bundle");
    if let Ok(p) = &r {
        assert!(p.begin_c <= 1096 + 8191, "[C03] begin_c = U32(u(3), 8 + u(6), 72 + u(10), 1096 + u(13))");
        assert!(p.num_c >= 1 && p.num_c <= 4 + 15, "[C03] num_c = U32(1, 2, 3, 4 + u(4))");
        kani::cover!(p.num_c == 19 && p.begin_c == 9287 && p.horizontal && !p.in_place);
        kani::cover!(p.num_c == 1 && p.begin_c == 0 && !p.horizontal && p.in_place);
    }
}

#[kani::proof]
#[kani::unwind(4)]
fn parse_palette_ranges() {
    let data: [u8; 12] = kani::any(); // longest form: 2+13 + 2+13 + 2+16 + 2+16 + 4 = 70 bits
    let mut bs = Bitstream::new(&data);
    let wp = <WpHeader as jxl_oxide_common::BundleDefault<()>>::default_with_context(());
    let r = Palette::parse(&mut bs, &wp);
    match &r {
        Ok(p) => {
            assert!(p.begin_c <= 1096 + 8191, "[C03] begin_c = U32(u(3), 8 + u(6), 72 + u(10), 1096 + u(13))");
            assert!(p.num_c >= 1 && p.num_c <= 1 + 8191, "[C03] num_c = U32(1, 3, 4, 1 + u(13))");
            assert!(p.nb_colours <= 5376 + 65535, "[C03] nb_colours = U32(u(8), 256 + u(10), 1280 + u(12), 5376 + u(16))");
            assert!(p.nb_deltas <= 1281 + 65535, "[C03] nb_deltas = U32(0, 1 + u(8), 257 + u(10), 1281 + u(16))");
            assert!((p.d_pred as u32) < 14, "[C03] d_pred = u(4), one of the 14 predictors");
            assert!(p.wp_header.is_some() == (p.d_pred == Predictor::SelfCorrecting), "[C03] the weighted-predictor header is kept iff d_pred is the weighted predictor");
        }
        Err(e) => {
            assert!(matches!(e, Error::Bitstream(_)), "[C03,C01] the only rejection is d_pred = 14 or 15 (InvalidEnum)");
        }
    }
    kani::cover!(matches!(&r, Ok(p) if p.nb_colours == 0 && p.nb_deltas == 66816 && p.num_c == 8192));
    kani::cover!(matches!(&r, Ok(p) if p.d_pred == Predictor::SelfCorrecting));
    kani::cover!(r.is_err());
}
