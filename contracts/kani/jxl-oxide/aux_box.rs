// Contracts for crates/jxl-oxide/src/aux_box.rs (child module: sees the private fields of AuxBoxList / AuxBoxReader /
// DataKind and the private `first_of_type` / `finalize`) and for aux_box/exif.rs (RawExif::new).
//
// C10: "each auxiliary box is delivered with its type and exact payload ... sized or running to end of file".
// The container parser (contracts/kani/jxl-bitstream/parse.rs, obligations ct.step_*) turns a file into the event stream
//      ( AuxBoxStart{ty, brotli_compressed, last_box}  AuxBoxData(ty, bytes)*  [AuxBoxEnd(ty)] )*   with  NoMoreAuxBox
// where AuxBoxEnd is emitted lazily -- only when MORE input arrives after a sized box -- and never for a box that runs to
// the end of the file (last_box). JxlImage::feed_bytes hands every such event to AuxBoxList::handle_event and
// JxlImage::finalize calls AuxBoxList::eof (lib.rs:325-336, 492-512). The contract of this module is the other half:
//      box list after the events of one box (+ AuxBoxEnd or eof)  ==  previous list ++ [(ty, concat(data slices))]
// and the three query functions report  Data  only for finished boxes,  Decoding  while a box of that type may still
// arrive or is being read,  NotFound  once it cannot arrive any more (documentation of AuxBoxData, aux_box.rs:155-163).
//
// Bounds: CBMC cannot grow a Vec<u8> by a symbolic amount (memory blow-up), so the payload slices have small CONCRETE
// lengths (0..=3 bytes, symbolic contents) and the event sequences are concrete with symbolic types and flags.
// Out of reach: Brotli-compressed boxes (external crate brotli-decompressor: DecompressorWriter) and the jbrd payload
// parser (jxl_jbr::JpegBitstreamData::try_parse); events with brotli_compressed = true or AuxBoxData of type jbrd are
// excluded, AuxBoxStart / AuxBoxEnd of type jbrd are included.
//
// DEFECT (C01), DESIGN.md section 7 item 5 -- CONFIRMED by native execution of the unchanged code (real brotli), not by
// CBMC:  AuxBoxStart{Exif, brotli_compressed: true, last_box: false};  AuxBoxEnd(Exif)  -> Err(InvalidData) because the
// empty Brotli stream is incomplete, AuxBoxList::finalize returns BEFORE replacing current_box, which stays
// DataKind::Brotli / not done;  AuxBoxStart{xml, brotli_compressed: false, ..}  -> ensure_raw -> `panic!()` (aux_box.rs:59).
// Through the public API: the 33-byte file  signature box | 00 00 00 0C "brob" "Exif" | 00 00 00 09 "xml " 'x' :
// feed_bytes(file) = Err(InvalidData) having consumed 24 bytes; feed_bytes(&file[24..]) panics.
// Native test: /verif/findings/c01_auxbox_refeed. The obligation `refeed_after_failed_finalisation` below states the
// violated contract on the state that history leaves behind (current_box = Brotli writer, not done); it FAILS on the
// unrepaired tree (CBMC: "explicit panic", aux_box.rs:59, in AuxBoxReader::ensure_raw).
use super::*;

// ---------------------------------------------------------------------------------------------------------------------
// helpers
// ---------------------------------------------------------------------------------------------------------------------
const JBRD: [u8; 4] = *b"jbrd";

fn any_type() -> ContainerBoxType {
    ContainerBoxType(kani::any())
}

fn any_plain_type() -> ContainerBoxType {
    let t: [u8; 4] = kani::any();
    kani::assume(t != JBRD);
    ContainerBoxType(t)
}

/// Assumed contract of the jbrd payload parser (jxl_jbr::JpegBitstreamData::try_parse / feed_bytes, another unit): total,
/// returns Ok or Err. Without this stub every event with a SYMBOLIC box type drags the JPEG-reconstruction parser into
/// the formula (the `ty == jbrd` test is a 4-byte compare that CBMC's symbolic execution cannot decide), > 400 s.
fn stub_jbrd_feed_bytes(_jbrd: &mut Jbrd, _bytes: &[u8]) -> crate::Result<()> {
    if kani::any() { Ok(()) } else { Err(jxl_jbr::Error::InvalidData.into()) }
}

/// Result<_, Box<dyn Error>>: inspect, then FORGET. Dropping a `Box<dyn Error + Send + Sync>` whose presence is symbolic
/// makes CBMC walk the drop glue of every error type behind the vtable (measured: > 14 GB even for RawExif::new alone).
fn ok<T>(r: Result<T>) -> bool {
    let b = r.is_ok();
    std::mem::forget(r);
    b
}

/// 0 = Data, 1 = Decoding, 2 = NotFound
fn code<T>(d: &AuxBoxData<T>) -> u8 {
    match d {
        AuxBoxData::Data(_) => 0,
        AuxBoxData::Decoding => 1,
        AuxBoxData::NotFound => 2,
    }
}

fn is_data(d: AuxBoxData<&[u8]>, want: &[u8]) -> bool {
    match d {
        AuxBoxData::Data(got) => got == want,
        _ => false,
    }
}

/// the reader for the NEXT box is untouched
fn fresh(r: &AuxBoxReader) -> bool {
    !r.done && matches!(r.data, DataKind::Init)
}

/// documented meaning of a query for a type of which no finished box exists
fn spec_absent(list_closed: bool, being_read: bool) -> u8 {
    if list_closed && !being_read { 2 } else { 1 }
}

/// 18181-2: Exif box payload = u32 big-endian tiff_header_offset, then the Exif data; the offset must lie inside it
fn spec_exif(b: &[u8]) -> Option<(u32, usize)> {
    if b.len() < 4 {
        return None;
    }
    let off = ((b[0] as u32) << 24) | ((b[1] as u32) << 16) | ((b[2] as u32) << 8) | (b[3] as u32);
    if off as usize >= b.len() - 4 { None } else { Some((off, b.len() - 4)) }
}

// ---------------------------------------------------------------------------------------------------------------------
// Proof structure (measured): DataKind keeps its tag in the niche of the Vec's capacity word. Once the real code has
// written through `DataKind::Raw(ref mut buf)` (extend_from_slice), CBMC can no longer constant-fold that tag, and the
// next `match` on it (AuxBoxReader::finalize) is explored with the Vec's heap pointer reinterpreted as the
// Box<DecompressorWriter> of the Brotli arm: no result in 400 s even for one byte. Every history is therefore cut into
// legs at the point where a box is "in progress", and the state at the cut is stated completely:
//      in_progress(list, finished boxes, ty, last_box, bytes)  :=  boxes == finished, current_box_ty == Some(ty),
//                              last_box flag, current_box == (Raw(bytes), not done), jbrd reader untouched
// leg 1 ends by asserting in_progress on the real state; leg 2 starts from `list_in_progress(..)`, the value that
// predicate describes (Vec capacity is the only thing it does not pin down, and nothing observes it).
// ---------------------------------------------------------------------------------------------------------------------
fn reader_raw(bytes: &[u8], done: bool) -> AuxBoxReader {
    AuxBoxReader { data: DataKind::Raw(bytes.to_vec()), done }
}

fn list_in_progress(finished: Option<(ContainerBoxType, &[u8])>, ty: ContainerBoxType, last_box: bool, bytes: &[u8]) -> AuxBoxList {
    let mut boxes = Vec::new();
    if let Some((fty, fbytes)) = finished {
        boxes.push((fty, reader_raw(fbytes, true)));
    }
    AuxBoxList { boxes, jbrd: Jbrd::new(), current_box_ty: Some(ty), current_box: reader_raw(bytes, false), last_box }
}

fn in_progress(list: &AuxBoxList, finished: Option<(ContainerBoxType, &[u8])>, ty: ContainerBoxType, last_box: bool, bytes: &[u8]) -> bool {
    let boxes_ok = match finished {
        None => list.boxes.is_empty(),
        Some((fty, fbytes)) => list.boxes.len() == 1 && list.boxes[0].0 == fty && list.boxes[0].1.done && is_data(list.boxes[0].1.data(), fbytes),
    };
    let cur_ok = match &list.current_box.data {
        DataKind::Raw(v) => &v[..] == bytes,
        _ => false,
    };
    boxes_ok && cur_ok && !list.current_box.done && list.current_box_ty == Some(ty) && list.last_box == last_box && list.jbrd.data().is_none()
}

// ---------------------------------------------------------------------------------------------------------------------
// leg 1: between two boxes: AuxBoxStart  ->  in_progress(.., no bytes yet)
// (a data event in the same leg already meets an unfoldable tag -- `ty != jbrd` is symbolic, so whether ensure_raw ran
// is symbolic for CBMC -- and its `match` would explore the Brotli arm)
// ---------------------------------------------------------------------------------------------------------------------
fn start_box(after_box: bool) {
    let ty = any_plain_type();
    let last_box: bool = kani::any(); // true = box running to the end of the file (the parser then never sends AuxBoxEnd)
    let want: &[u8] = &[];
    let other = any_type();
    kani::assume(other != ty);
    let fty = any_plain_type();
    let fbytes: [u8; 2] = kani::any();
    let finished: Option<(ContainerBoxType, &[u8])> = if after_box { Some((fty, &fbytes)) } else { None };

    // the state between two boxes (AuxBoxList::new(), or what finish_box leaves: see its last asserts)
    let mut list = AuxBoxList::new();
    if after_box {
        list.boxes.push((fty, reader_raw(&fbytes, true)));
    }
    let before = if after_box && fty == ty { 0 } else { 1 };
    assert!(code(&list.first_of_type(ty)) == before && code(&list.jbrd()) == 1, "[C10] before the box: only finished boxes are Data");

    let r = ok(list.handle_event(ParseEvent::AuxBoxStart { ty, brotli_compressed: false, last_box }));
    assert!(r, "[C10,C01] a plain box may start");
    assert!(in_progress(&list, finished, ty, last_box, want),
        "[C10] box in progress with no bytes yet; finished boxes untouched");
    // queries while the box is being read: never Data for it, never NotFound for its own type
    if !(after_box && fty == ty) {
        assert!(code(&list.first_of_type(ty)) == 1, "[C10] a box that is still being read is reported as Decoding");
    } else {
        assert!(is_data(list.first_of_type(ty), &fbytes), "[C10] an earlier finished box of the same type keeps answering");
    }
    if !(after_box && fty == other) {
        assert!(code(&list.first_of_type(other)) == spec_absent(last_box, false),
            "[C10] other types: NotFound exactly when the box being read is the last one of the file");
    }
    kani::cover!(last_box);
    kani::cover!(!after_box || fty == ty);
    std::mem::forget(list); // drop glue of DataKind::Brotli / Jbrd::Init is not under contract
}

#[kani::proof]
#[kani::unwind(8)]
#[kani::stub(Jbrd::feed_bytes, stub_jbrd_feed_bytes)]
fn box_start_contract() {
    start_box(false);
    start_box(true); // a second box after a finished one
}

// ---------------------------------------------------------------------------------------------------------------------
// leg 1b: in_progress(.., prefix) + one more AuxBoxData  ->  in_progress(.., prefix ++ slice)
// (induction over the number of data events: the payload is the concatenation of ALL slices, however many)
// ---------------------------------------------------------------------------------------------------------------------
fn more_data<const P: usize, const A: usize, const TOTAL: usize>(after_box: bool) {
    assert!(TOTAL == P + A);
    let ty = any_plain_type();
    let last_box: bool = kani::any();
    let prefix: [u8; P] = kani::any();
    let d: [u8; A] = kani::any();
    let mut want = [0u8; TOTAL];
    want[..P].copy_from_slice(&prefix);
    want[P..].copy_from_slice(&d);
    let fty = any_plain_type();
    let fbytes: [u8; 2] = kani::any();
    let finished: Option<(ContainerBoxType, &[u8])> = if after_box { Some((fty, &fbytes)) } else { None };
    let mut list = list_in_progress(finished, ty, last_box, &prefix);
    let r = ok(list.handle_event(ParseEvent::AuxBoxData(ty, &d)));
    assert!(r, "[C10,C01] further payload of a box in progress is accepted");
    assert!(in_progress(&list, finished, ty, last_box, &want),
        "[C10,C09] the reader holds the bytes received before followed by the new slice: the payload is the concatenation of the data slices, however they were cut");
    kani::cover!(last_box);
    std::mem::forget(list);
}

#[kani::proof]
#[kani::unwind(8)]
#[kani::stub(Jbrd::feed_bytes, stub_jbrd_feed_bytes)]
fn box_more_data_contract() {
    more_data::<0, 3, 3>(false); // first slice, directly after AuxBoxStart
    more_data::<3, 2, 5>(false);
    more_data::<1, 3, 4>(true);
}

// ---------------------------------------------------------------------------------------------------------------------
// leg 2: in_progress(.., bytes)  then AuxBoxEnd or eof()  ->  the box is delivered
// ---------------------------------------------------------------------------------------------------------------------
fn finish_box<const TOTAL: usize>(finish_with_eof: bool, after_box: bool) {
    let ty = any_plain_type();
    let last_box: bool = kani::any();
    let want: [u8; TOTAL] = kani::any();
    let other = any_type();
    kani::assume(other != ty);
    let fty = any_plain_type();
    let fbytes: [u8; 2] = kani::any();
    let finished: Option<(ContainerBoxType, &[u8])> = if after_box { Some((fty, &fbytes)) } else { None };
    kani::assume(!after_box || other != fty);

    let mut list = list_in_progress(finished, ty, last_box, &want);
    assert!(in_progress(&list, finished, ty, last_box, &want));

    // last_box symbolic: with eof() this covers a SIZED box that ends exactly at the end of the file (the parser emits
    // AuxBoxEnd lazily, so none was sent) and a box running to the end of the file
    let r = ok(if finish_with_eof { list.eof() } else { list.handle_event(ParseEvent::AuxBoxEnd(ty)) });
    assert!(r, "[C10,C01] a plain box is finalised by AuxBoxEnd and by eof alike");

    let n = if after_box { 2 } else { 1 };
    assert!(list.boxes.len() == n, "[C10] exactly one more box was delivered");
    assert!(list.boxes[n - 1].0 == ty, "[C10] the box is delivered with its type");
    assert!(list.boxes[n - 1].1.is_done(), "[C10] the delivered box is finished");
    assert!(is_data(list.boxes[n - 1].1.data(), &want), "[C10,C09] the delivered payload is exactly what was collected");
    if after_box {
        assert!(list.boxes[0].0 == fty && is_data(list.boxes[0].1.data(), &fbytes), "[C10] earlier boxes keep their place, type and payload");
    }
    // first box of a type wins
    if after_box && fty == ty {
        assert!(is_data(list.first_of_type(ty), &fbytes), "[C10] the FIRST box of a type answers the query");
    } else {
        assert!(is_data(list.first_of_type(ty), &want), "[C10] the finished box is found by its type, with its payload");
    }
    assert!(list.current_box_ty.is_none() && fresh(&list.current_box), "[C10] the reader is ready for the next box");
    let closed = if finish_with_eof { true } else { last_box };
    assert!(list.last_box == closed, "[C10] the list is closed by eof, or by a box announced as the last one");
    assert!(code(&list.first_of_type(other)) == spec_absent(closed, false), "[C10] absent types: NotFound once no further box can arrive, Decoding before");
    assert!(code(&list.jbrd()) == spec_absent(closed, false), "[C10] no jbrd box: same rule");
    assert!(list.jbrd.data().is_none(), "[C10] plain boxes do not touch the jbrd reader");

    // the two public typed queries (single-box case)
    if !after_box {
        if ty == ContainerBoxType::XML {
            assert!(is_data(list.first_xml(), &want), "[C10] first_xml returns the xml payload");
        } else {
            assert!(code(&list.first_xml()) == spec_absent(closed, false), "[C10] first_xml without an xml box");
        }
        let exif = list.first_exif();
        let exif_ok = exif.is_ok();
        if ty == ContainerBoxType::EXIF {
            match spec_exif(&want) {
                None => assert!(!exif_ok, "[C10] an Exif payload without a valid TIFF header offset is an error"),
                Some((off, len)) => {
                    let good = match &exif {
                        Ok(AuxBoxData::Data(e)) => e.tiff_header_offset() == off && e.payload().len() == len && e.payload() == &want[TOTAL - len..],
                        _ => false,
                    };
                    assert!(good, "[C10] first_exif = (big-endian offset, payload after the 4 offset bytes)");
                }
            }
        } else {
            let good = match &exif {
                Ok(d) => code(d) == spec_absent(closed, false),
                Err(_) => false,
            };
            assert!(good, "[C10] first_exif without an Exif box");
        }
        std::mem::forget(exif);
    }
    kani::cover!(ty == ContainerBoxType::XML);
    kani::cover!(ty == ContainerBoxType::EXIF);
    kani::cover!(last_box);
    kani::cover!(!last_box);
    kani::cover!(!after_box || fty == ty);
    std::mem::forget(list);
}

#[kani::proof]
#[kani::unwind(8)]
#[kani::stub(Jbrd::feed_bytes, stub_jbrd_feed_bytes)]
fn box_end_contract() {
    finish_box::<0>(false, false);
    finish_box::<5>(false, false);
    finish_box::<2>(false, true);
}

#[kani::proof]
#[kani::unwind(8)]
#[kani::stub(Jbrd::feed_bytes, stub_jbrd_feed_bytes)]
fn box_eof_contract() {
    finish_box::<0>(true, false);
    finish_box::<5>(true, false);
    finish_box::<2>(true, true);
}

// ---------------------------------------------------------------------------------------------------------------------
// no aux box at all
// ---------------------------------------------------------------------------------------------------------------------
#[kani::proof]
#[kani::unwind(8)]
fn no_box_contract() {
    let ty = any_type();
    let mut list = AuxBoxList::new();
    assert!(code(&list.first_of_type(ty)) == 1 && code(&list.jbrd()) == 1 && code(&list.first_xml()) == 1, "[C10] before the end: Decoding");
    let which: u8 = kani::any();
    let c: [u8; 2] = kani::any();
    let r = match which {
        0 => ok(list.handle_event(ParseEvent::NoMoreAuxBox)), // the codestream box runs to the end of the file
        1 => ok(list.eof()),
        _ => {
            // codestream bytes and the kind notice are not the list's business
            let r = ok(list.handle_event(ParseEvent::Codestream(&c)));
            assert!(r && code(&list.first_of_type(ty)) == 1 && !list.last_box, "[C10] codestream events leave the list alone");
            ok(list.eof())
        }
    };
    assert!(r, "[C10,C01] closing an empty list succeeds");
    assert!(list.boxes.is_empty() && list.last_box && list.current_box_ty.is_none() && fresh(&list.current_box), "[C10] closed, still empty");
    assert!(code(&list.first_of_type(ty)) == 2 && code(&list.jbrd()) == 2 && code(&list.first_xml()) == 2, "[C10] after the end: NotFound");
    let e = list.first_exif();
    assert!(matches!(e, Ok(AuxBoxData::NotFound)), "[C10] first_exif: NotFound, not an error");
    std::mem::forget(e);
    // eof is idempotent
    assert!(ok(list.eof()) && list.boxes.is_empty() && list.last_box, "[C10,C01] a second eof changes nothing");
    kani::cover!(which == 0);
    kani::cover!(which > 1);
    std::mem::forget(list);
}

// ---------------------------------------------------------------------------------------------------------------------
// totality (C01): ANY order of events is answered with Ok or Err, never a panic -- by induction over the history.
//   Inv(list) := the reader in progress is (Init, not done) or (Raw(_), not done); every listed box is done.
//   AuxBoxList::new() satisfies Inv; each step below: Inv + ONE event (any type, any flags)  =>  no panic, Inv again.
// Inv is what keeps ensure_raw away from its `panic!()` (NoData / Brotli) and feed_data away from `unreachable!()`.
// Brotli starts are excluded (brotli_compressed: false) and the jbrd payload parser is stubbed; with those two
// exclusions impossible orders (data or end without start, start after start, anything after eof) are all covered.
// ---------------------------------------------------------------------------------------------------------------------
fn inv_total(list: &AuxBoxList) -> bool {
    let cur = !list.current_box.done && matches!(list.current_box.data, DataKind::Init | DataKind::Raw(_));
    let n = list.boxes.len();
    let mut listed = n <= 2;
    if n >= 1 {
        listed = listed && list.boxes[0].1.done;
    }
    if n >= 2 {
        listed = listed && list.boxes[1].1.done;
    }
    cur && listed
}

/// the Inv state classes: reader Init with no finished box / reader Raw(2 bytes) after one finished box (a Vec whose
/// length is symbolic is poison for CBMC, so the two go together); any current type; any last_box
fn any_inv_state(raw: bool) -> AuxBoxList {
    let mut list = AuxBoxList::new();
    if raw {
        let fb: [u8; 1] = kani::any();
        list.boxes.push((any_type(), reader_raw(&fb, true)));
    }
    list.current_box_ty = if kani::any() { Some(any_type()) } else { None };
    list.last_box = kani::any();
    if raw {
        let b: [u8; 2] = kani::any();
        list.current_box = reader_raw(&b, false);
    }
    list
}

fn step_total(raw: bool, kind: u8) {
    let buf: [u8; 1] = kani::any();
    let mut list = any_inv_state(raw);
    assert!(inv_total(&list));
    let n0 = list.boxes.len();
    let r = match kind {
        0 => list.handle_event(ParseEvent::AuxBoxStart { ty: any_type(), brotli_compressed: false, last_box: kani::any() }),
        1 => list.handle_event(ParseEvent::AuxBoxData(any_type(), &buf)),
        2 => list.handle_event(ParseEvent::AuxBoxEnd(any_type())),
        3 => list.handle_event(ParseEvent::NoMoreAuxBox),
        4 => list.handle_event(ParseEvent::Codestream(&buf)),
        _ => list.eof(),
    };
    let r = ok(r);
    assert!(inv_total(&list), "[C01] Inv is kept by every event: the reader in progress is Init or Raw and not done; listed boxes are finished");
    assert!(list.boxes.len() == n0 || list.boxes.len() == n0 + 1, "[C10] an event delivers at most one box");
    // the queries are total in every Inv state
    let _ = code(&list.first_of_type(any_type()));
    let _ = code(&list.jbrd());
    let _ = code(&list.first_xml());
    let _ = ok(list.first_exif());
    kani::cover!(r);
    kani::cover!(kind != 1 && kind != 2 && kind != 5 || !r); // jbrd data / end / eof can fail
    std::mem::forget(list);
}

#[kani::proof]
#[kani::unwind(8)]
#[kani::stub(Jbrd::feed_bytes, stub_jbrd_feed_bytes)]
fn step_total_init_contract() {
    assert!(inv_total(&AuxBoxList::new()), "[C01] base case: the new list satisfies Inv");
    step_total(false, 0);
    step_total(false, 1);
    step_total(false, 2);
    step_total(false, 3);
    step_total(false, 4);
    step_total(false, 5);
}

#[kani::proof]
#[kani::unwind(8)]
#[kani::stub(Jbrd::feed_bytes, stub_jbrd_feed_bytes)]
fn step_total_raw_contract() {
    step_total(true, 0);
    step_total(true, 1);
    step_total(true, 2);
    step_total(true, 3);
    step_total(true, 4);
    step_total(true, 5);
}

// ---------------------------------------------------------------------------------------------------------------------
// RawExif::new (aux_box/exif.rs) for every payload of 0..=6 bytes
// ---------------------------------------------------------------------------------------------------------------------
fn exif_new<const L: usize>() {
    let b: [u8; L] = kani::any();
    let r = RawExif::new(&b);
    let r_ok = r.is_ok();
    match spec_exif(&b) {
        None => assert!(!r_ok, "[C10,C01] Exif box shorter than 4 bytes or with an offset outside the payload: error"),
        Some((off, len)) => {
            let good = match &r {
                Ok(e) => e.tiff_header_offset() == off && e.payload().len() == len && e.payload() == &b[4..],
                Err(_) => false,
            };
            assert!(good, "[C10] RawExif = (big-endian u32 offset, the bytes after it)");
        }
    }
    std::mem::forget(r);
}

#[kani::proof]
#[kani::unwind(8)]
fn exif_new_contract() {
    exif_new::<0>();
    exif_new::<3>();
    exif_new::<4>();
    exif_new::<5>();
    exif_new::<6>();
}

// ---------------------------------------------------------------------------------------------------------------------
// DESIGN.md section 7 item 5: a failed finalisation must not turn the next box into a panic
// ---------------------------------------------------------------------------------------------------------------------
/// State left behind by  AuxBoxStart{ty, brotli_compressed: true, ..};  AuxBoxEnd(ty) -> Err  (the module header and
/// findings/c01_auxbox_refeed give the native run that produces it; CBMC cannot execute the Brotli decoder itself -- no
/// result in 900 s even with the stream decoder stubbed): current_box_ty = Some(ty), current_box = (Brotli writer, not
/// done). The writer is built exactly as ensure_brotli builds it (the registry raises the unwinding bound of the one
/// loop that fills its 1080-entry Huffman table). The parser has left the box, so the next event is the start of the
/// next box. Contract (C01): handle_event returns Ok or Err. EXPECTED TO FAIL on the unrepaired tree at aux_box.rs:59.
/// Assumed contract of a FAILING box finalisation (AuxBoxReader::finalize when the Brotli decompressor reports an error in
/// flush/close -- the external decompressor cannot be run by CBMC): returns Err and leaves the reader as it is.
fn stub_reader_finalize_fails(_r: &mut AuxBoxReader) -> crate::Result<()> {
    Err(std::io::Error::from(std::io::ErrorKind::InvalidData).into())
}

#[kani::proof]
#[kani::unwind(8)]
#[kani::stub(Jbrd::feed_bytes, stub_jbrd_feed_bytes)]
#[kani::stub(AuxBoxReader::finalize, stub_reader_finalize_fails)]
fn refeed_after_failed_finalisation() {
    // a box is being read; which kind does not matter for AuxBoxList::finalize: the failing finalisation is stubbed. A Raw
    // reader is used because dropping a Brotli writer would run the external decompressor's Drop inside CBMC (> 15 min).
    // On the unrepaired tree the stale Raw reader then meets ensure_brotli()'s panic!() when a brob box follows (the mirror
    // image of the natively reproduced history, where a stale Brotli reader meets ensure_raw()).
    let mut list = AuxBoxList::new();
    list.current_box_ty = Some(ContainerBoxType::EXIF);
    list.current_box = AuxBoxReader { data: DataKind::Raw(Vec::new()), done: false };
    // ... its end arrives and the finalisation fails (real AuxBoxList::handle_event / finalize, failing reader)
    let r0 = ok(list.handle_event(ParseEvent::AuxBoxEnd(ContainerBoxType::EXIF)));
    assert!(!r0, "[C01,C10] a failed finalisation is reported as an error");
    // JxlImage::feed_bytes returned that error; the caller feeds the rest of the file: the next box starts
    let brotli: bool = kani::any();
    let r = ok(list.handle_event(ParseEvent::AuxBoxStart { ty: ContainerBoxType::XML, brotli_compressed: brotli, last_box: kani::any() }));
    kani::cover!(r && !brotli);
    kani::cover!(r && brotli);
    std::mem::forget(list);
}
