// Contracts for crates/jxl-oxide/src/fb.rs (C15): the orientation maps of the whole-buffer copy
// (FrameBuffer::from_grids) and of the incremental stream (ImageStream::to_original_coord), both against the ONE
// executable definition spec_orientation (contracts/spec/orientation.rs, also used for jxl-image and jxl-render),
// and the float -> 8/16-bit sample conversions (`Sealed` impls for u8 / u16).
use super::*;
use private::Sealed as _;

#[path = "@SPEC@/orientation.rs"]
mod ospec;
use ospec::*;

// ---------------------------------------------------------------------------------------------------
// ImageStream::to_original_coord: displayed position -> stored position, the inverse of spec_orientation
// ---------------------------------------------------------------------------------------------------
fn stream(orientation: u32, width: u32, height: u32) -> ImageStream<'static> {
    ImageStream {
        orientation,
        width,
        height,
        grids: Vec::new(),
        start_offset_xy: Vec::new(),
        bit_depth: Vec::new(),
        spot_colors: Vec::new(),
        y: 0,
        x: 0,
        c: 0,
    }
}

#[kani::proof]
fn to_original_coord_contract() {
    // ImageStream::width/height are the DISPLAYED dimensions (from_render swaps them for orientation >= 5)
    let (dw, dh): (u32, u32) = (kani::any(), kani::any());
    let o: u32 = kani::any();
    kani::assume(1 <= o && o <= 8); // asserted by from_render; 1 + u(3) in the header
    let s = stream(o, dw, dh);
    // write_to_buffer only asks for x < width, y < height
    let (x, y): (u32, u32) = (kani::any(), kani::any());
    kani::assume(x < dw && y < dh);
    let (ox, oy) = s.to_original_coord(x, y);
    // stored dimensions
    let (w, h) = if o <= 4 { (dw as i64, dh as i64) } else { (dh as i64, dw as i64) };
    assert!(spec_oriented_dims(o, w, h) == (dw as i64, dh as i64));
    assert!(spec_inside(w, h, ox as i64, oy as i64), "[C15] the stream reads inside the stored image");
    assert!(spec_orientation(o, w, h, ox as i64, oy as i64) == (x as i64, y as i64),
        "[C15] ImageStream::to_original_coord is the inverse of the orientation map: the stored sample it names is displayed at (x, y)");
    kani::cover!(o == 6 && dw != dh && x != y);
    kani::cover!(o == 8 && dw > 1 && dh > 1);
    kani::cover!(o == 3);
}

// ---------------------------------------------------------------------------------------------------
// f32 -> u8 / u16: correctly rounded, clamped, NaN -> 0, monotone; over all f32 bit patterns
// ---------------------------------------------------------------------------------------------------
/// spec: the real number scale * v, computed exactly (24-bit significand x 16-bit constant fits f64)
fn exact_scaled(v: f32, scale: f64) -> f64 {
    v as f64 * scale
}

#[kani::proof]
fn copy_from_f32_u8_contract() {
    let v = f32::from_bits(kani::any());
    let mut out: u8 = kani::any();
    out.copy_from_f32(v);
    let r = out as f64;
    if v.is_nan() {
        assert!(out == 0, "[C15] NaN becomes 0");
    } else {
        let t = exact_scaled(v, 255.0);
        // two f32 roundings (product, + 0.5) of values below 256: each at most 2^-17
        let eps = 1.0 / 65536.0;
        if t <= 0.0 {
            assert!(out == 0, "[C15] negative samples clamp to 0");
        } else if t >= 255.0 {
            assert!(out == 255, "[C15] samples >= 1.0 clamp to 255 (incl. +inf)");
        } else {
            assert!((r - t).abs() <= 0.5 + eps, "[C15] u8 sample is the float scaled by 255 and rounded to nearest");
        }
    }
    kani::cover!(out == 128);
    kani::cover!(v.is_nan());
    kani::cover!(v == f32::INFINITY);
    kani::cover!(v < 0.0 && out == 0);
}

#[kani::proof]
fn copy_from_f32_u16_contract() {
    let v = f32::from_bits(kani::any());
    let mut out: u16 = kani::any();
    out.copy_from_f32(v);
    let r = out as f64;
    if v.is_nan() {
        assert!(out == 0, "[C15] NaN becomes 0");
    } else {
        let t = exact_scaled(v, 65535.0);
        // two f32 roundings of values below 65536: each at most 2^-9
        let eps = 1.0 / 256.0;
        if t <= 0.0 {
            assert!(out == 0, "[C15] negative samples clamp to 0");
        } else if t >= 65535.0 {
            assert!(out == 65535, "[C15] samples >= 1.0 clamp to 65535 (incl. +inf)");
        } else {
            assert!((r - t).abs() <= 0.5 + eps, "[C15] u16 sample is the float scaled by 65535 and rounded to nearest");
        }
    }
    kani::cover!(out == 32768);
    kani::cover!(v.is_nan());
    kani::cover!(v == f32::NEG_INFINITY);
}

#[kani::proof]
fn copy_from_f32_monotone_u8() {
    let a = f32::from_bits(kani::any());
    let b = f32::from_bits(kani::any());
    kani::assume(!a.is_nan() && !b.is_nan() && a <= b);
    let (mut a8, mut b8) = (0u8, 0u8);
    a8.copy_from_f32(a);
    b8.copy_from_f32(b);
    assert!(a8 <= b8, "[C15] f32 -> u8 is monotone");
    let mut f = 0f32;
    f.copy_from_f32(a);
    assert!(f.to_bits() == a.to_bits(), "[C15] f32 -> f32 is the identity");
    kani::cover!(a8 < b8);
}

#[kani::proof]
fn copy_from_f32_monotone_u16() {
    let a = f32::from_bits(kani::any());
    let b = f32::from_bits(kani::any());
    kani::assume(!a.is_nan() && !b.is_nan() && a <= b);
    let (mut a16, mut b16) = (0u16, 0u16);
    a16.copy_from_f32(a);
    b16.copy_from_f32(b);
    assert!(a16 <= b16, "[C15] f32 -> u16 is monotone");
    kani::cover!(a16 < b16);
}

// ---------------------------------------------------------------------------------------------------
// copy_from_grid: the integer fast paths (8-bit samples into u8, 16-bit samples into u16) clamp exactly; the float
// fast path is the same rounding as copy_from_f32; outside the grid reads 0. Grids are 1x1 (the position logic is
// AlignedGrid::try_get_ref; the sample logic is what is under contract here).
// ---------------------------------------------------------------------------------------------------
fn grid1<S: Default + Clone>(v: S) -> jxl_grid::AlignedGrid<S> {
    let mut g = jxl_grid::AlignedGrid::<S>::with_alloc_tracker(1, 1, None).unwrap();
    g.buf_mut()[0] = v;
    g
}

fn outside_or_origin() -> (usize, usize, bool) {
    let inside: bool = kani::any();
    let (x, y) = if inside { (0usize, 0usize) } else { (kani::any(), kani::any()) };
    kani::assume(inside || x > 0 || y > 0);
    (x, y, inside)
}
const D8: BitDepth = BitDepth::IntegerSample { bits_per_sample: 8 };
const D16: BitDepth = BitDepth::IntegerSample { bits_per_sample: 16 };

#[kani::proof]
#[kani::unwind(10)]
#[kani::stub(std::vec::Vec::reserve, no_reserve)]
fn copy_from_grid_u8_i32() {
    let (x, y, inside) = outside_or_origin();
    let v: i32 = kani::any();
    let mut out: u8 = kani::any();
    out.copy_from_grid(&ImageBuffer::I32(grid1(v)), x, y, D8);
    let e = if !inside { 0 } else if v < 0 { 0 } else if v > 255 { 255 } else { v as u8 };
    assert!(out == e, "[C15] 8-bit integer samples are copied exactly, clamped to 0..=255, 0 outside the grid");
    kani::cover!(inside && out == 200);
    kani::cover!(!inside);
}
#[kani::proof]
#[kani::unwind(18)]
#[kani::stub(std::vec::Vec::reserve, no_reserve)]
fn copy_from_grid_u8_i16() {
    let (x, y, inside) = outside_or_origin();
    let v: i16 = kani::any();
    let mut out: u8 = kani::any();
    out.copy_from_grid(&ImageBuffer::I16(grid1(v)), x, y, D8);
    let e = if !inside { 0 } else if v < 0 { 0 } else if v > 255 { 255 } else { v as u8 };
    assert!(out == e, "[C15] 8-bit integer samples (16-bit buffer) are copied exactly, clamped, 0 outside the grid");
    kani::cover!(inside && out == 200);
}
// float fast path (fb2.copy_from_grid_u8_f32 / _u16_f32): tractable only with the `no_reserve` model below (see there).
#[kani::proof]
#[kani::unwind(10)]
#[kani::stub(std::vec::Vec::reserve, no_reserve)]
fn copy_from_grid_u8_f32() {
    let (x, y, inside) = outside_or_origin();
    let v = f32::from_bits(kani::any());
    let mut out: u8 = kani::any();
    out.copy_from_grid(&ImageBuffer::F32(grid1(v)), x, y, D8);
    let mut e = 0u8;
    e.copy_from_f32(if inside { v } else { 0.0 });
    assert!(out == e, "[C15] float samples take the same rounding in the 8-bit fast path as copy_from_f32");
    kani::cover!(inside && out == 3);
}
#[kani::proof]
#[kani::unwind(10)]
#[kani::stub(std::vec::Vec::reserve, no_reserve)]
fn copy_from_grid_u16_i32() {
    let (x, y, inside) = outside_or_origin();
    let v: i32 = kani::any();
    let mut out: u16 = kani::any();
    out.copy_from_grid(&ImageBuffer::I32(grid1(v)), x, y, D16);
    let e = if !inside { 0 } else if v < 0 { 0 } else if v > 65535 { 65535 } else { v as u16 };
    assert!(out == e, "[C15] 16-bit integer samples are copied exactly, clamped to 0..=65535, 0 outside the grid");
    kani::cover!(inside && out == 40000);
}
#[kani::proof]
#[kani::unwind(18)]
#[kani::stub(std::vec::Vec::reserve, no_reserve)]
fn copy_from_grid_u16_i16() {
    let (x, y, inside) = outside_or_origin();
    let v: i16 = kani::any();
    let mut out: u16 = kani::any();
    out.copy_from_grid(&ImageBuffer::I16(grid1(v)), x, y, D16);
    let e = if !inside || v < 0 { 0 } else { v as u16 };
    assert!(out == e, "[C15] 16-bit integer samples (16-bit buffer) are copied exactly, negative -> 0");
    kani::cover!(inside && out == 3);
}
#[kani::proof]
#[kani::unwind(10)]
#[kani::stub(std::vec::Vec::reserve, no_reserve)]
fn copy_from_grid_u16_f32() {
    let (x, y, inside) = outside_or_origin();
    let v = f32::from_bits(kani::any());
    let mut out: u16 = kani::any();
    out.copy_from_grid(&ImageBuffer::F32(grid1(v)), x, y, D16);
    let mut e = 0u16;
    e.copy_from_f32(if inside { v } else { 0.0 });
    assert!(out == e, "[C15] float samples take the same rounding in the 16-bit fast path as copy_from_f32");
    kani::cover!(inside && out == 3);
}

// ---------------------------------------------------------------------------------------------------
// FrameBuffer::from_grids. The coordinate map, the per-channel region offsets and the interleaving are under contract
// in the fb2 section below (from_grids_regions_o1..8, from_grids_mixed_o1..8); from_grids_int is the 1x1 case over all
// orientations at once.
// ---------------------------------------------------------------------------------------------------
/// integer channels go through BitDepth::parse_integer_sample with the channel's own bit depth (1x1 copy region)
#[kani::proof]
#[kani::unwind(18)]
#[kani::stub(std::vec::Vec::reserve, no_reserve)]
fn from_grids_int() {
    let (v0, v1): (i32, i16) = (kani::any(), kani::any());
    let b0 = ImageBuffer::I32(grid1(v0));
    let b1 = ImageBuffer::I16(grid1(v1));
    let depth = [D16, D8];
    let one = Region { left: 0, top: 0, width: 1, height: 1 };
    let o: u32 = kani::any();
    kani::assume(1 <= o && o <= 8);
    let fb = FrameBuffer::from_grids(&[&b0, &b1], &depth, &[one, one], one, o);
    assert!(fb.width() == 1 && fb.height() == 1 && fb.channels() == 2 && fb.buf().len() == 2, "[C15] from_grids: 1x1x2");
    assert!(fb.buf()[0].to_bits() == D16.parse_integer_sample(v0).to_bits(), "[C15] from_grids: 32-bit integer channel scaled by its own bit depth");
    assert!(fb.buf()[1].to_bits() == D8.parse_integer_sample(v1 as i32).to_bits(), "[C15] from_grids: 16-bit integer channel scaled by its own bit depth");
    kani::cover!(o == 7 && v1 == 255);
}

#[kani::proof]
fn canary() {
    let v = f32::from_bits(kani::any());
    let mut out = 0u8;
    out.copy_from_f32(v);
    assert!(out != 77, "canary: must fail");
}

// ---------------------------------------------------------------------------------------------------
// fb2.*: FrameBuffer::from_grids with SEVERAL channels whose grids cover DIFFERENT regions (C15).
// ---------------------------------------------------------------------------------------------------
/// `AlignedGrid::with_alloc_tracker` ends with `buf.resize_with(len + offset, ..)` where `offset` (< 32 / size_of::<S>())
/// is derived from the ADDRESS of the buffer and is therefore symbolic for CBMC's symbolic execution, although the call
/// always truncates (the Vec was created with len + 31 / size_of::<S>() elements). CBMC nevertheless explores the
/// "grow" branch (Vec::reserve -> realloc -> copy of a symbolically sized object), which is what made every harness
/// that touches the contents of an AlignedGrid need 12-30 GB. This model replaces `Vec::reserve` for the harnesses
/// below: it ASSERTS that it is never reached (a failing untagged assert in this file makes the obligation UNDECIDED,
/// never held), so what is verified is exactly the real code. Measured: 203 s / 16.6 GB -> 0.9 s / 0.3 GB for writing
/// and reading back a 3x2 grid. Needs `#![feature(allocator_api)]` (crate_attrs in registry.d/41_fb2.py).
fn no_reserve<T, A: core::alloc::Allocator>(_v: &mut Vec<T, A>, _additional: usize) {
    assert!(false, "harness model: no Vec growth is reachable");
    kani::assume(false);
}

const W: usize = 3; // copy region (stored orientation): non-square, so that all eight maps and the w/h swap are distinguishable
const H: usize = 2;
const G0W: usize = 4; // grid of channel 0
const G0H: usize = 3;
const G1W: usize = 3; // grid of channel 1
const G1H: usize = 2;

fn grid_f32<const N: usize>(w: usize, h: usize, vals: &[f32; N]) -> ImageBuffer {
    let mut g = jxl_grid::AlignedGrid::<f32>::with_alloc_tracker(w, h, None).unwrap();
    let b = g.buf_mut();
    let mut i = 0;
    while i < N {
        b[i] = vals[i];
        i += 1;
    }
    ImageBuffer::F32(g)
}

/// spec: sample of a channel at stored position (x, y) of the copy region, where the channel's grid (gw x gh, row-major
/// `vals`) covers the region whose origin lies (dx, dy) to the upper left of the copy region's origin; 0 outside
fn spec_channel_sample(vals: &[f32], gw: i64, gh: i64, dx: i64, dy: i64, x: i64, y: i64) -> f32 {
    let (gx, gy) = (x + dx, y + dy);
    if spec_inside(gw, gh, gx, gy) { vals[(gy * gw + gx) as usize] } else { 0.0 }
}

/// the stored position displayed at (xx, yy): inverse of spec_orientation by search (spec_orientation is the ONLY map)
fn spec_stored_position(o: u32, w: i64, h: i64, xx: i64, yy: i64) -> (i64, i64) {
    let mut st = (-1i64, -1i64);
    let mut y = 0;
    while y < h {
        let mut x = 0;
        while x < w {
            if spec_orientation(o, w, h, x, y) == (xx, yy) {
                st = (x, y);
            }
            x += 1;
        }
        y += 1;
    }
    st
}

/// frame coordinates: |x0|, |y0| <= 2^29 + 9344 and frame / image size <= 2^30 (see ru.image_region_to_frame), so every
/// region origin handed to from_grids (Render::image_all_channels / image_planar, lib.rs:1150-1198: the regions of
/// ImageWithRegion and target_frame_region) is far inside +-2^30 and `left - region.left` cannot overflow
const ORIGIN_MAX: i32 = 1 << 30;

fn from_grids_regions_for(o: u32) {
    let v0: [f32; G0W * G0H] = kani::any();
    let v1: [f32; G1W * G1H] = kani::any();
    let b0 = grid_f32(G0W, G0H, &v0);
    let b1 = grid_f32(G1W, G1H, &v1);
    let (left, top): (i32, i32) = (kani::any(), kani::any());
    kani::assume(-ORIGIN_MAX <= left && left <= ORIGIN_MAX && -ORIGIN_MAX <= top && top <= ORIGIN_MAX);
    // each grid region starts (dx, dy) to the upper left of the copy region (negative: inside it), independently per channel
    let (dx0, dy0, dx1, dy1): (i32, i32, i32, i32) = (kani::any(), kani::any(), kani::any(), kani::any());
    kani::assume(-2 <= dx0 && dx0 <= 2 && -2 <= dy0 && dy0 <= 2 && -2 <= dx1 && dx1 <= 2 && -2 <= dy1 && dy1 <= 2);
    let copy = Region { left, top, width: W as u32, height: H as u32 };
    // grid dimensions == region dimensions: invariant of ImageWithRegion (buffer[i] is allocated with regions[i]'s size)
    let r0 = Region { left: left - dx0, top: top - dy0, width: G0W as u32, height: G0H as u32 };
    let r1 = Region { left: left - dx1, top: top - dy1, width: G1W as u32, height: G1H as u32 };
    let fb = FrameBuffer::from_grids(&[&b0, &b1], &[D8, D8], &[r0, r1], copy, o);

    let (w, h) = (W as i64, H as i64);
    let (ow, oh) = spec_oriented_dims(o, w, h);
    assert!(fb.width() as i64 == ow && fb.height() as i64 == oh, "[C15] from_grids: output dimensions are the oriented dimensions of the copy region");
    assert!(fb.channels() == 2 && fb.buf().len() as i64 == ow * oh * 2, "[C15] from_grids: one interleaved sample per channel and pixel");
    // ONE symbolic output sample (X, Y, c)
    let (xx, yy, c): (i64, i64, usize) = (kani::any(), kani::any(), kani::any());
    kani::assume(0 <= xx && xx < ow && 0 <= yy && yy < oh && c < 2);
    let (x, y) = spec_stored_position(o, w, h, xx, yy);
    assert!(spec_inside(w, h, x, y)); // spec_orientation is onto the displayed rectangle
    let got = fb.buf()[((yy * ow + xx) * 2) as usize + c];
    let e = if c == 0 {
        spec_channel_sample(&v0, G0W as i64, G0H as i64, dx0 as i64, dy0 as i64, x, y)
    } else {
        spec_channel_sample(&v1, G1W as i64, G1H as i64, dx1 as i64, dy1 as i64, x, y)
    };
    assert!(got.to_bits() == e.to_bits(), "[C15] from_grids: output sample (X,Y,c) is channel c's grid sample at the stored position spec_orientation maps to (X,Y), offset by THAT channel's grid region; 0 outside the grid");
    kani::cover!(c == 0 && xx == ow - 1 && yy == oh - 1 && dx0 == 1 && dy0 == 1 && dx1 == 0 && dy1 == 0 && got.to_bits() != 0);
    kani::cover!(c == 1 && xx == 0 && yy == oh - 1 && dx0 == 1 && dx1 == 0 && got.to_bits() != 0);
    kani::cover!(c == 1 && dx1 == -2 && got.to_bits() != 0);
    kani::cover!(c == 0 && dy0 == 2 && dx0 == -1 && got.to_bits() != 0);
    std::mem::forget(fb);
    std::mem::forget(b0);
    std::mem::forget(b1);
}
macro_rules! fgr {
    ($name:ident, $o:expr) => {
        #[kani::proof]
        #[kani::unwind(13)]
        #[kani::stub(std::vec::Vec::reserve, no_reserve)]
        fn $name() {
            from_grids_regions_for($o);
        }
    };
}
fgr!(from_grids_regions_o1, 1);
fgr!(from_grids_regions_o2, 2);
fgr!(from_grids_regions_o3, 3);
fgr!(from_grids_regions_o4, 4);
fgr!(from_grids_regions_o5, 5);
fgr!(from_grids_regions_o6, 6);
fgr!(from_grids_regions_o7, 7);
fgr!(from_grids_regions_o8, 8);

// ---------------------------------------------------------------------------------------------------
// from_grids, three channels of the three buffer types (i32 / i16 / f32), each with its own bit depth and its own grid
// region: position map, interleaving stride 3 and per-channel sample scaling together.
// ---------------------------------------------------------------------------------------------------
fn grid_of<S: Default + Clone + Copy, const N: usize>(w: usize, h: usize, vals: &[S; N]) -> jxl_grid::AlignedGrid<S> {
    let mut g = jxl_grid::AlignedGrid::<S>::with_alloc_tracker(w, h, None).unwrap();
    let b = g.buf_mut();
    let mut i = 0;
    while i < N {
        b[i] = vals[i];
        i += 1;
    }
    g
}

fn from_grids_mixed_for(o: u32) {
    let v0: [i32; G0W * G0H] = kani::any();
    let v1: [i16; G1W * G1H] = kani::any();
    let v2: [f32; G1W * G1H] = kani::any();
    let b0 = ImageBuffer::I32(grid_of(G0W, G0H, &v0));
    let b1 = ImageBuffer::I16(grid_of(G1W, G1H, &v1));
    let b2 = ImageBuffer::F32(grid_of(G1W, G1H, &v2));
    let (left, top): (i32, i32) = (kani::any(), kani::any());
    kani::assume(-ORIGIN_MAX <= left && left <= ORIGIN_MAX && -ORIGIN_MAX <= top && top <= ORIGIN_MAX);
    let copy = Region { left, top, width: W as u32, height: H as u32 };
    // channel 0: grid padded by one column / row on the left / top; channel 1: exactly the copy region;
    // channel 2: starts one column to the RIGHT of the copy region's origin (its first column reads 0)
    let r0 = Region { left: left - 1, top: top - 1, width: G0W as u32, height: G0H as u32 };
    let r1 = copy;
    let r2 = Region { left: left + 1, top, width: G1W as u32, height: G1H as u32 };
    let fb = FrameBuffer::from_grids(&[&b0, &b1, &b2], &[D16, D8, D8], &[r0, r1, r2], copy, o);

    let (w, h) = (W as i64, H as i64);
    let (ow, oh) = spec_oriented_dims(o, w, h);
    assert!(fb.width() as i64 == ow && fb.height() as i64 == oh, "[C15] from_grids: output dimensions are the oriented dimensions of the copy region");
    assert!(fb.channels() == 3 && fb.buf().len() as i64 == ow * oh * 3, "[C15] from_grids: one interleaved sample per channel and pixel");
    let (xx, yy, c): (i64, i64, usize) = (kani::any(), kani::any(), kani::any());
    kani::assume(0 <= xx && xx < ow && 0 <= yy && yy < oh && c < 3);
    let (x, y) = spec_stored_position(o, w, h, xx, yy);
    assert!(spec_inside(w, h, x, y));
    let got = fb.buf()[((yy * ow + xx) * 3) as usize + c];
    let e = if c == 0 {
        D16.parse_integer_sample(v0[((y + 1) * G0W as i64 + x + 1) as usize])
    } else if c == 1 {
        D8.parse_integer_sample(v1[(y * G1W as i64 + x) as usize] as i32)
    } else if x >= 1 {
        v2[(y * G1W as i64 + x - 1) as usize]
    } else {
        0.0
    };
    assert!(got.to_bits() == e.to_bits(), "[C15] from_grids: output sample (X,Y,c) is channel c's grid sample (integer samples scaled by the channel's OWN bit depth) at the stored position, offset by the channel's OWN grid region; 0 outside the grid");
    kani::cover!(c == 0 && got == 1.0);
    kani::cover!(c == 1 && got == 1.0 && xx == ow - 1);
    kani::cover!(c == 2 && x == 0);
    kani::cover!(c == 2 && x == 2 && got.to_bits() != 0);
    std::mem::forget(fb);
    std::mem::forget(b0);
    std::mem::forget(b1);
    std::mem::forget(b2);
}
macro_rules! fgm {
    ($name:ident, $o:expr) => {
        #[kani::proof]
        #[kani::unwind(13)]
        #[kani::stub(std::vec::Vec::reserve, no_reserve)]
        fn $name() {
            from_grids_mixed_for($o);
        }
    };
}
fgm!(from_grids_mixed_o1, 1);
fgm!(from_grids_mixed_o2, 2);
fgm!(from_grids_mixed_o3, 3);
fgm!(from_grids_mixed_o4, 4);
fgm!(from_grids_mixed_o5, 5);
fgm!(from_grids_mixed_o6, 6);
fgm!(from_grids_mixed_o7, 7);
fgm!(from_grids_mixed_o8, 8);

// ---------------------------------------------------------------------------------------------------
// ImageStream::write_to_buffer: the incremental stream, written in two pieces (split point concrete per harness: mid-pixel,
// pixel-aligned, row-aligned, 0 and everything; a symbolic split makes the three nested loops unwind 14^3 times), produces exactly the
// samples of FrameBuffer::from_grids (same grids, same per-channel regions), and both equal the specification.
// The stream is built field by field as ImageStream::from_render does (fb.rs:185-286): displayed width/height (swapped
// for orientation >= 5), start_offset_xy[c] = (left - region_c.left, top - region_c.top); no spot colours.
// ---------------------------------------------------------------------------------------------------
const NS: usize = W * H * 2;

fn stream_for(o: u32, k: usize) {
    let v0: [f32; G0W * G0H] = kani::any();
    let v1: [f32; G1W * G1H] = kani::any();
    let b0 = grid_f32(G0W, G0H, &v0);
    let b1 = grid_f32(G1W, G1H, &v1);
    let (left, top): (i32, i32) = (kani::any(), kani::any());
    kani::assume(-ORIGIN_MAX <= left && left <= ORIGIN_MAX && -ORIGIN_MAX <= top && top <= ORIGIN_MAX);
    let (dx0, dy0, dx1, dy1): (i32, i32, i32, i32) = (kani::any(), kani::any(), kani::any(), kani::any());
    kani::assume(-2 <= dx0 && dx0 <= 2 && -2 <= dy0 && dy0 <= 2 && -2 <= dx1 && dx1 <= 2 && -2 <= dy1 && dy1 <= 2);
    let copy = Region { left, top, width: W as u32, height: H as u32 };
    let r0 = Region { left: left - dx0, top: top - dy0, width: G0W as u32, height: G0H as u32 };
    let r1 = Region { left: left - dx1, top: top - dy1, width: G1W as u32, height: G1H as u32 };
    let fb = FrameBuffer::from_grids(&[&b0, &b1], &[D8, D8], &[r0, r1], copy, o);

    let (w, h) = (W as i64, H as i64);
    let (ow, oh) = spec_oriented_dims(o, w, h);
    let mut s = ImageStream {
        orientation: o,
        width: ow as u32,
        height: oh as u32,
        grids: vec![&b0, &b1],
        start_offset_xy: vec![(left - r0.left, top - r0.top), (left - r1.left, top - r1.top)],
        bit_depth: vec![D8, D8],
        spot_colors: Vec::new(),
        y: 0,
        x: 0,
        c: 0,
    };
    assert!(s.width() as usize == fb.width() && s.height() as usize == fb.height() && s.channels() as usize == fb.channels(),
        "[C15] stream and interleaved buffer report the same dimensions");
    const SENTINEL: u32 = 0x7fc0_1234; // a NaN payload no copy produces by accident
    let mut out = [f32::from_bits(SENTINEL); NS + 1];
    assert!(k <= NS);
    let n1 = s.write_to_buffer(&mut out[..k]);
    let n2 = s.write_to_buffer(&mut out[k..NS]);
    let n3 = s.write_to_buffer(&mut out[NS..]);
    assert!(n1 == k && n2 == NS - k && n3 == 0, "[C15] the stream delivers width*height*channels samples in total, as many per call as the buffer takes, then nothing");
    assert!(out[NS].to_bits() == SENTINEL, "[C15] an exhausted stream writes nothing");
    let i: usize = kani::any();
    kani::assume(i < NS);
    assert!(out[i].to_bits() == fb.buf()[i].to_bits(), "[C15] sample i of the incremental stream == sample i of FrameBuffer::from_grids");
    // and directly against the specification
    let (c, px) = (i % 2, (i / 2) as i64);
    let (xx, yy) = (px % ow, px / ow);
    let (x, y) = spec_stored_position(o, w, h, xx, yy);
    assert!(spec_inside(w, h, x, y));
    let e = if c == 0 {
        spec_channel_sample(&v0, G0W as i64, G0H as i64, dx0 as i64, dy0 as i64, x, y)
    } else {
        spec_channel_sample(&v1, G1W as i64, G1H as i64, dx1 as i64, dy1 as i64, x, y)
    };
    assert!(out[i].to_bits() == e.to_bits(), "[C15] stream sample (X,Y,c) is channel c's grid sample at the stored position spec_orientation maps to (X,Y), offset by that channel's grid region; 0 outside");
    kani::cover!(i == 7 && out[i].to_bits() != 0 && dx0 == 1 && dx1 == 0);
    kani::cover!(i == NS - 1 && out[i].to_bits() != 0 && dx0 == 1 && dx1 == 0);
    kani::cover!(c == 1 && dx1 == 2 && x == 2); // outside the grid
    kani::cover!(i == 0 && out[i].to_bits() != 0);
    std::mem::forget(s);
    std::mem::forget(fb);
    std::mem::forget(b0);
    std::mem::forget(b1);
}
macro_rules! fgs {
    ($name:ident, $o:expr, $k:expr) => {
        #[kani::proof]
        #[kani::unwind(14)]
        #[kani::stub(std::vec::Vec::reserve, no_reserve)]
        fn $name() {
            stream_for($o, $k);
        }
    };
}
fgs!(stream_matches_from_grids_o1, 1, 5);
fgs!(stream_matches_from_grids_o2, 2, 12);
fgs!(stream_matches_from_grids_o3, 3, 0);
fgs!(stream_matches_from_grids_o4, 4, 7);
fgs!(stream_matches_from_grids_o5, 5, 3);
fgs!(stream_matches_from_grids_o6, 6, 6);
fgs!(stream_matches_from_grids_o7, 7, 9);
fgs!(stream_matches_from_grids_o8, 8, 1);

// integer streams: every u8 / u16 sample of the stream is the correctly rounded and clamped float sample of from_grids
// (rounding itself: fb.copy_from_f32_u8 / _u16). Channel 0 is declared 8-bit, channel 1 16-bit, so for either sample type
// one channel takes the same-depth fast path of copy_from_grid and the other the generic path.
fn stream_int_for<S: FrameBufferSample + PartialEq + Copy, const CW: usize, const CH: usize, const N0: usize, const N1: usize, const NSAMP: usize>(
    o: u32,
    k: usize,
    sentinel: S,
) {
    // copy region CW x CH; channel 0: (CW+1) x (CH+1) grid padded by one column / row on the left / top;
    // channel 1: CW x CH grid starting one column to the RIGHT of the copy origin (its first column reads 0)
    assert!(N0 == (CW + 1) * (CH + 1) && N1 == CW * CH && NSAMP == CW * CH * 2);
    let v0: [f32; N0] = kani::any();
    let v1: [f32; N1] = kani::any();
    let b0 = grid_f32(CW + 1, CH + 1, &v0);
    let b1 = grid_f32(CW, CH, &v1);
    let (left, top): (i32, i32) = (kani::any(), kani::any());
    kani::assume(-ORIGIN_MAX <= left && left <= ORIGIN_MAX && -ORIGIN_MAX <= top && top <= ORIGIN_MAX);
    let copy = Region { left, top, width: CW as u32, height: CH as u32 };
    let r0 = Region { left: left - 1, top: top - 1, width: CW as u32 + 1, height: CH as u32 + 1 };
    let r1 = Region { left: left + 1, top, width: CW as u32, height: CH as u32 };
    let fb = FrameBuffer::from_grids(&[&b0, &b1], &[D8, D16], &[r0, r1], copy, o);
    let (ow, oh) = spec_oriented_dims(o, CW as i64, CH as i64);
    let mut s = ImageStream {
        orientation: o,
        width: ow as u32,
        height: oh as u32,
        grids: vec![&b0, &b1],
        start_offset_xy: vec![(left - r0.left, top - r0.top), (left - r1.left, top - r1.top)],
        bit_depth: vec![D8, D16],
        spot_colors: Vec::new(),
        y: 0,
        x: 0,
        c: 0,
    };
    let mut out = [sentinel; NSAMP];
    assert!(k <= NSAMP);
    let n1 = s.write_to_buffer(&mut out[..k]);
    let n2 = s.write_to_buffer(&mut out[k..]);
    assert!(n1 == k && n2 == NSAMP - k, "[C15] the stream delivers width*height*channels samples in total");
    // every sample, one assertion each (concrete index: both sides are then the same rounding of the same grid read, which the
    // solver closes structurally; ONE symbolic index needs a 12-way multiplexer in front of a float multiplier: u16 > 1200 s)
    let mut i = 0;
    while i < NSAMP {
        let mut e = S::default();
        e.copy_from_f32(fb.buf()[i]);
        assert!(out[i] == e, "[C15] integer stream sample i == the float sample i of from_grids, rounded and clamped (copy_from_f32)");
        i += 1;
    }
    let (mut seen0, mut seen1) = (false, false);
    let mut i = 0;
    while i < NSAMP {
        if out[i] != sentinel && out[i] != S::default() {
            if i % 2 == 0 { seen0 = true } else { seen1 = true }
        }
        i += 1;
    }
    kani::cover!(seen0 && seen1);
    std::mem::forget(s);
    std::mem::forget(fb);
    std::mem::forget(b0);
    std::mem::forget(b1);
}
#[kani::proof]
#[kani::unwind(14)]
#[kani::stub(std::vec::Vec::reserve, no_reserve)]
fn stream_u8_matches_from_grids_o7() {
    stream_int_for::<u8, 3, 2, 12, 6, 12>(7, 5, 0xAA);
}
// u16: 2x1 copy region (the 16-bit rounding is ~50x harder for the solver than the 8-bit one: 3x2 needs 660 s)
#[kani::proof]
#[kani::unwind(14)]
#[kani::stub(std::vec::Vec::reserve, no_reserve)]
fn stream_u16_matches_from_grids_o8() {
    stream_int_for::<u16, 2, 1, 6, 2, 4>(8, 3, 0xAAAA);
}
