// Contracts for crates/jxl-oxide/src/fb.rs (C15): the orientation maps of the whole-buffer copy
// (FrameBuffer::from_grids) and of the incremental stream (ImageStream::to_original_coord), both against the ONE
// executable definition spec_orientation (contracts/spec/orientation.rs, also used for jxl-image and jxl-render),
// and the float -> 8/16-bit sample conversions (`Sealed` impls for u8 / u16).
use super::*;
use private::Sealed as _;

#[path = "@SPEC@/orientation.rs"]
mod ospec;
use ospec::*;

// ---------------------------------------------------------------------------------------------------
// ImageStream::to_original_coord: displayed position -> stored position, the inverse of spec_orientation
// ---------------------------------------------------------------------------------------------------
fn stream(orientation: u32, width: u32, height: u32) -> ImageStream<'static> {
    ImageStream {
        orientation,
        width,
        height,
        grids: Vec::new(),
        start_offset_xy: Vec::new(),
        bit_depth: Vec::new(),
        spot_colors: Vec::new(),
        y: 0,
        x: 0,
        c: 0,
    }
}

#[kani::proof]
fn to_original_coord_contract() {
    // ImageStream::width/height are the DISPLAYED dimensions (from_render swaps them for orientation >= 5)
    let (dw, dh): (u32, u32) = (kani::any(), kani::any());
    let o: u32 = kani::any();
    kani::assume(1 <= o && o <= 8); // asserted by from_render; 1 + u(3) in the header
    let s = stream(o, dw, dh);
    // write_to_buffer only asks for x < width, y < height
    let (x, y): (u32, u32) = (kani::any(), kani::any());
    kani::assume(x < dw && y < dh);
    let (ox, oy) = s.to_original_coord(x, y);
    // stored dimensions
    let (w, h) = if o <= 4 { (dw as i64, dh as i64) } else { (dh as i64, dw as i64) };
    assert!(spec_oriented_dims(o, w, h) == (dw as i64, dh as i64));
    assert!(spec_inside(w, h, ox as i64, oy as i64), "[C15] the stream reads inside the stored image");
    assert!(spec_orientation(o, w, h, ox as i64, oy as i64) == (x as i64, y as i64),
        "[C15] ImageStream::to_original_coord is the inverse of the orientation map: the stored sample it names is displayed at (x, y)");
    kani::cover!(o == 6 && dw != dh && x != y);
    kani::cover!(o == 8 && dw > 1 && dh > 1);
    kani::cover!(o == 3);
}

// ---------------------------------------------------------------------------------------------------
// f32 -> u8 / u16: correctly rounded, clamped, NaN -> 0, monotone; over all f32 bit patterns
// ---------------------------------------------------------------------------------------------------
/// spec: the real number scale * v, computed exactly (24-bit significand x 16-bit constant fits f64)
fn exact_scaled(v: f32, scale: f64) -> f64 {
    v as f64 * scale
}

#[kani::proof]
fn copy_from_f32_u8_contract() {
    let v = f32::from_bits(kani::any());
    let mut out: u8 = kani::any();
    out.copy_from_f32(v);
    let r = out as f64;
    if v.is_nan() {
        assert!(out == 0, "[C15] NaN becomes 0");
    } else {
        let t = exact_scaled(v, 255.0);
        // two f32 roundings (product, + 0.5) of values below 256: each at most 2^-17
        let eps = 1.0 / 65536.0;
        if t <= 0.0 {
            assert!(out == 0, "[C15] negative samples clamp to 0");
        } else if t >= 255.0 {
            assert!(out == 255, "[C15] samples >= 1.0 clamp to 255 (incl. +inf)");
        } else {
            assert!((r - t).abs() <= 0.5 + eps, "[C15] u8 sample is the float scaled by 255 and rounded to nearest");
        }
    }
    kani::cover!(out == 128);
    kani::cover!(v.is_nan());
    kani::cover!(v == f32::INFINITY);
    kani::cover!(v < 0.0 && out == 0);
}

#[kani::proof]
fn copy_from_f32_u16_contract() {
    let v = f32::from_bits(kani::any());
    let mut out: u16 = kani::any();
    out.copy_from_f32(v);
    let r = out as f64;
    if v.is_nan() {
        assert!(out == 0, "[C15] NaN becomes 0");
    } else {
        let t = exact_scaled(v, 65535.0);
        // two f32 roundings of values below 65536: each at most 2^-9
        let eps = 1.0 / 256.0;
        if t <= 0.0 {
            assert!(out == 0, "[C15] negative samples clamp to 0");
        } else if t >= 65535.0 {
            assert!(out == 65535, "[C15] samples >= 1.0 clamp to 65535 (incl. +inf)");
        } else {
            assert!((r - t).abs() <= 0.5 + eps, "[C15] u16 sample is the float scaled by 65535 and rounded to nearest");
        }
    }
    kani::cover!(out == 32768);
    kani::cover!(v.is_nan());
    kani::cover!(v == f32::NEG_INFINITY);
}

#[kani::proof]
fn copy_from_f32_monotone_u8() {
    let a = f32::from_bits(kani::any());
    let b = f32::from_bits(kani::any());
    kani::assume(!a.is_nan() && !b.is_nan() && a <= b);
    let (mut a8, mut b8) = (0u8, 0u8);
    a8.copy_from_f32(a);
    b8.copy_from_f32(b);
    assert!(a8 <= b8, "[C15] f32 -> u8 is monotone");
    let mut f = 0f32;
    f.copy_from_f32(a);
    assert!(f.to_bits() == a.to_bits(), "[C15] f32 -> f32 is the identity");
    kani::cover!(a8 < b8);
}

#[kani::proof]
fn copy_from_f32_monotone_u16() {
    let a = f32::from_bits(kani::any());
    let b = f32::from_bits(kani::any());
    kani::assume(!a.is_nan() && !b.is_nan() && a <= b);
    let (mut a16, mut b16) = (0u16, 0u16);
    a16.copy_from_f32(a);
    b16.copy_from_f32(b);
    assert!(a16 <= b16, "[C15] f32 -> u16 is monotone");
    kani::cover!(a16 < b16);
}

// ---------------------------------------------------------------------------------------------------
// copy_from_grid: the integer fast paths (8-bit samples into u8, 16-bit samples into u16) clamp exactly; the float
// fast path is the same rounding as copy_from_f32; outside the grid reads 0. Grids are 1x1 (the position logic is
// AlignedGrid::try_get_ref; the sample logic is what is under contract here).
// ---------------------------------------------------------------------------------------------------
fn grid1<S: Default + Clone>(v: S) -> jxl_grid::AlignedGrid<S> {
    let mut g = jxl_grid::AlignedGrid::<S>::with_alloc_tracker(1, 1, None).unwrap();
    g.buf_mut()[0] = v;
    g
}

fn outside_or_origin() -> (usize, usize, bool) {
    let inside: bool = kani::any();
    let (x, y) = if inside { (0usize, 0usize) } else { (kani::any(), kani::any()) };
    kani::assume(inside || x > 0 || y > 0);
    (x, y, inside)
}
const D8: BitDepth = BitDepth::IntegerSample { bits_per_sample: 8 };
const D16: BitDepth = BitDepth::IntegerSample { bits_per_sample: 16 };

#[kani::proof]
#[kani::unwind(10)]
fn copy_from_grid_u8_i32() {
    let (x, y, inside) = outside_or_origin();
    let v: i32 = kani::any();
    let mut out: u8 = kani::any();
    out.copy_from_grid(&ImageBuffer::I32(grid1(v)), x, y, D8);
    let e = if !inside { 0 } else if v < 0 { 0 } else if v > 255 { 255 } else { v as u8 };
    assert!(out == e, "[C15] 8-bit integer samples are copied exactly, clamped to 0..=255, 0 outside the grid");
    kani::cover!(inside && out == 200);
    kani::cover!(!inside);
}
#[kani::proof]
#[kani::unwind(18)]
fn copy_from_grid_u8_i16() {
    let (x, y, inside) = outside_or_origin();
    let v: i16 = kani::any();
    let mut out: u8 = kani::any();
    out.copy_from_grid(&ImageBuffer::I16(grid1(v)), x, y, D8);
    let e = if !inside { 0 } else if v < 0 { 0 } else if v > 255 { 255 } else { v as u8 };
    assert!(out == e, "[C15] 8-bit integer samples (16-bit buffer) are copied exactly, clamped, 0 outside the grid");
    kani::cover!(inside && out == 200);
}
// NOT registered (copy_from_grid_u8_f32 / copy_from_grid_u16_f32): CBMC exceeds the 14 GB budget on the float fast path.
#[kani::proof]
#[kani::unwind(10)]
fn copy_from_grid_u8_f32() {
    let (x, y, inside) = outside_or_origin();
    let v = f32::from_bits(kani::any());
    let mut out: u8 = kani::any();
    out.copy_from_grid(&ImageBuffer::F32(grid1(v)), x, y, D8);
    let mut e = 0u8;
    e.copy_from_f32(if inside { v } else { 0.0 });
    assert!(out == e, "[C15] float samples take the same rounding in the 8-bit fast path as copy_from_f32");
    kani::cover!(inside && out == 3);
}
#[kani::proof]
#[kani::unwind(10)]
fn copy_from_grid_u16_i32() {
    let (x, y, inside) = outside_or_origin();
    let v: i32 = kani::any();
    let mut out: u16 = kani::any();
    out.copy_from_grid(&ImageBuffer::I32(grid1(v)), x, y, D16);
    let e = if !inside { 0 } else if v < 0 { 0 } else if v > 65535 { 65535 } else { v as u16 };
    assert!(out == e, "[C15] 16-bit integer samples are copied exactly, clamped to 0..=65535, 0 outside the grid");
    kani::cover!(inside && out == 40000);
}
#[kani::proof]
#[kani::unwind(18)]
fn copy_from_grid_u16_i16() {
    let (x, y, inside) = outside_or_origin();
    let v: i16 = kani::any();
    let mut out: u16 = kani::any();
    out.copy_from_grid(&ImageBuffer::I16(grid1(v)), x, y, D16);
    let e = if !inside || v < 0 { 0 } else { v as u16 };
    assert!(out == e, "[C15] 16-bit integer samples (16-bit buffer) are copied exactly, negative -> 0");
    kani::cover!(inside && out == 3);
}
#[kani::proof]
#[kani::unwind(10)]
fn copy_from_grid_u16_f32() {
    let (x, y, inside) = outside_or_origin();
    let v = f32::from_bits(kani::any());
    let mut out: u16 = kani::any();
    out.copy_from_grid(&ImageBuffer::F32(grid1(v)), x, y, D16);
    let mut e = 0u16;
    e.copy_from_f32(if inside { v } else { 0.0 });
    assert!(out == e, "[C15] float samples take the same rounding in the 16-bit fast path as copy_from_f32");
    kani::cover!(inside && out == 3);
}

// ---------------------------------------------------------------------------------------------------
// FrameBuffer::from_grids: output dimensions and coordinate map == spec_orientation.
// NOT REGISTERED (from_grids_o1..8): CBMC needs > 12-14 GB inside the runner (RSS watchdog) although a run outside it closed
// in 164-270 s; kept for a machine with more memory. Only from_grids_int (1x1) is an obligation.
// Bounded: ONE float channel, a 3x2 grid (non-square, so that the transposing orientations are distinguishable) copied
// whole (copy region == grid region == 3x2 at the origin); every sample value symbolic. Measured: two channels or
// symbolic region / copy offsets exceed the 14 GB CBMC budget of the runner, so channel interleaving is covered only by
// from_grids_int (1x1, two channels) and the `left - region.left` offset arithmetic of from_grids is NOT covered.
// ---------------------------------------------------------------------------------------------------
const CW: usize = 3;
const CH: usize = 2;
fn from_grids_for(o: u32) {
    let mut g0 = jxl_grid::AlignedGrid::<f32>::with_alloc_tracker(CW, CH, None).unwrap();
    let vals0: [f32; CW * CH] = kani::any();
    let mut i = 0;
    while i < CW * CH {
        kani::assume(!vals0[i].is_nan());
        *g0.get_mut(i % CW, i / CW) = vals0[i];
        i += 1;
    }
    let b0 = ImageBuffer::F32(g0);
    let depth = [D8];
    let regions = [Region { left: 0, top: 0, width: CW as u32, height: CH as u32 }];
    let copy = Region { left: 0, top: 0, width: CW as u32, height: CH as u32 };
    let fb = FrameBuffer::from_grids(&[&b0], &depth, &regions, copy, o);

    let (w, h) = (CW as i64, CH as i64);
    let (ow, oh) = spec_oriented_dims(o, w, h);
    assert!(fb.width() as i64 == ow && fb.height() as i64 == oh && fb.channels() == 1, "[C15] from_grids: output dimensions are the oriented dimensions");
    assert!(fb.buf().len() as i64 == ow * oh, "[C15] from_grids: buffer length is width*height*channels");
    // one symbolic stored position
    let (x, y): (usize, usize) = (kani::any(), kani::any());
    kani::assume(x < CW && y < CH);
    let (dx, dy) = spec_orientation(o, w, h, x as i64, y as i64);
    let idx = dx + dy * ow;
    assert!(0 <= idx && idx < ow * oh);
    let got = fb.buf()[idx as usize];
    assert!(got.to_bits() == vals0[y * CW + x].to_bits(), "[C15] from_grids: stored sample (x,y) lands at spec_orientation(x,y) of the output buffer");
    kani::cover!(x == 2 && y == 1 && got != 0.0);
    kani::cover!(x == 0 && y == 1);
}
macro_rules! fg {
    ($name:ident, $o:expr) => {
        #[kani::proof]
        #[kani::unwind(18)]
        fn $name() {
            from_grids_for($o);
        }
    };
}
fg!(from_grids_o1, 1);
fg!(from_grids_o2, 2);
fg!(from_grids_o3, 3);
fg!(from_grids_o4, 4);
fg!(from_grids_o5, 5);
fg!(from_grids_o6, 6);
fg!(from_grids_o7, 7);
fg!(from_grids_o8, 8);

/// integer channels go through BitDepth::parse_integer_sample with the channel's own bit depth (1x1 copy region)
#[kani::proof]
#[kani::unwind(18)]
fn from_grids_int() {
    let (v0, v1): (i32, i16) = (kani::any(), kani::any());
    let b0 = ImageBuffer::I32(grid1(v0));
    let b1 = ImageBuffer::I16(grid1(v1));
    let depth = [D16, D8];
    let one = Region { left: 0, top: 0, width: 1, height: 1 };
    let o: u32 = kani::any();
    kani::assume(1 <= o && o <= 8);
    let fb = FrameBuffer::from_grids(&[&b0, &b1], &depth, &[one, one], one, o);
    assert!(fb.width() == 1 && fb.height() == 1 && fb.channels() == 2 && fb.buf().len() == 2, "[C15] from_grids: 1x1x2");
    assert!(fb.buf()[0].to_bits() == D16.parse_integer_sample(v0).to_bits(), "[C15] from_grids: 32-bit integer channel scaled by its own bit depth");
    assert!(fb.buf()[1].to_bits() == D8.parse_integer_sample(v1 as i32).to_bits(), "[C15] from_grids: 16-bit integer channel scaled by its own bit depth");
    kani::cover!(o == 7 && v1 == 255);
}

#[kani::proof]
fn canary() {
    let v = f32::from_bits(kani::any());
    let mut out = 0u8;
    out.copy_from_f32(v);
    assert!(out != 77, "canary: must fail");
}
