// Contracts for crates/jxl-frame/src/header.rs (child module: sees the private associated functions
// `FrameHeader::test_full_image`, `FrameHeader::resets_canvas`, `FrameHeader::size_for`, `CanvasSizeParams`).
//
//   C05  frame-composition predicates of the frame header (18181-1 F.2 "FrameHeader", "BlendingInfo"):
//          full_frame     = !have_crop || the frame rectangle [x0, x0+width) x [y0, y0+height) covers the
//                           image rectangle [0, size.width) x [0, size.height)
//          resets_canvas  = full_frame && blending_info.mode == kReplace
//          can_reference  = !is_last && (duration == 0 || save_as_reference != 0) && frame_type != kLFFrame
//          a frame is shown (keyframe) iff it is a regular / skip-progressive frame that is last or has
//          a non-zero duration (zero-duration frames are layers of the next shown frame)
//   C01/C14  geometry helpers: sample size, group / LF-group counts, group sizes, group index <-> coordinate,
//          collision predicates. Postconditions are stated in u64 "mathematical" arithmetic.
//   C14  BlendingInfo bundle: parse(spec_enc(h)) == h and parsing stops at the writer's bit.
//
// Headers are built with `default_with_context` (never parsed: CBMC cannot get through FrameHeader::parse)
// and the public fields are overwritten inside the ranges that `Frame::parse` validates:
//   1 <= width, height <= 2^30            crates/jxl-frame/src/lib.rs:124-133 and :207-212
//   width * height <= 2^40                crates/jxl-frame/src/lib.rs:134-140
//   upsampling in {1,2,4,8}               header.rs:26   ty(U32(1, 2, 4, 8))
//   group_size_shift <= 3                 header.rs:31   ty(u(2))
//   lf_level in 0..=4                     header.rs:43   ty(1 + u(2)) cond(LfFrame) default(0)
//   |x0|, |y0| <= 2^29 + 9344 < 2^30      header.rs:45-50 U32(.., 18688 + u(30)); UnpackSigned
// The three small discrete parameters are enumerated as const generics (symbolic 32-bit divisors do not
// close in CBMC), width / height / indices / coordinates stay symbolic.
use super::*;
use jxl_oxide_common::BundleDefault;

// ---------------------------------------------------------------------------------------------------
// construction helpers (no parsing)
// ---------------------------------------------------------------------------------------------------
pub(crate) fn image_header_with(width: u32, height: u32) -> ImageHeader {
    let mut size = <SizeHeader as BundleDefault<()>>::default_with_context(());
    size.width = width;
    size.height = height;
    let metadata = <jxl_image::ImageMetadata as BundleDefault<()>>::default_with_context(());
    ImageHeader { size, metadata }
}

pub(crate) fn default_frame_header(ih: &ImageHeader) -> FrameHeader {
    <FrameHeader as BundleDefault<&ImageHeader>>::default_with_context(ih)
}

fn any_blend_mode() -> BlendMode {
    match kani::any::<u8>() {
        0 => BlendMode::Replace,
        1 => BlendMode::Add,
        2 => BlendMode::Blend,
        3 => BlendMode::MulAdd,
        _ => BlendMode::Mul,
    }
}

fn any_frame_type() -> FrameType {
    match kani::any::<u8>() {
        0 => FrameType::RegularFrame,
        1 => FrameType::LfFrame,
        2 => FrameType::ReferenceOnly,
        _ => FrameType::SkipProgressive,
    }
}

// ---------------------------------------------------------------------------------------------------
// C05: full_frame / resets_canvas  ==  set semantics of "the frame covers the whole image"
// ---------------------------------------------------------------------------------------------------
/// point (px, py) of the canvas lies inside the frame rectangle (mathematical integers)
fn in_frame(x0: i32, y0: i32, w: u32, h: u32, px: i64, py: i64) -> bool {
    (x0 as i64) <= px && px < x0 as i64 + w as i64 && (y0 as i64) <= py && py < y0 as i64 + h as i64
}

#[kani::proof]
fn full_image_contract() {
    // ALL i32 offsets and u32 sizes (the parser's ranges are a subset); image size >= 1 (SizeHeader: 1 + u(n) / 8 * (1 + u(5)))
    let (x0, y0): (i32, i32) = (kani::any(), kani::any());
    let (w, h): (u32, u32) = (kani::any(), kani::any());
    let (iw, ih): (u32, u32) = (kani::any(), kani::any());
    kani::assume(iw >= 1 && ih >= 1);
    let have_crop: bool = kani::any();
    let hdr = image_header_with(iw, ih);
    let p = CanvasSizeParams { have_crop, x0, y0, width: w, height: h, size: &hdr.size };
    let full = FrameHeader::test_full_image(p);
    // (=>) every image point is a frame point: checked for one symbolic image point, i.e. for all
    let (px, py): (u32, u32) = (kani::any(), kani::any());
    kani::assume(px < iw && py < ih);
    if full {
        assert!(in_frame(x0, y0, w, h, px as i64, py as i64),
            "[C05,C14] test_full_image => every sample of the image canvas is covered by the frame rectangle");
    } else {
        // (<=) a rectangle that contains two opposite corners of the image contains the image
        assert!(!(in_frame(x0, y0, w, h, 0, 0) && in_frame(x0, y0, w, h, iw as i64 - 1, ih as i64 - 1)),
            "[C05,C14] !test_full_image => some corner of the image canvas is outside the frame rectangle (crop offset and size both count)");
    }
    // resets_canvas = full_frame && mode == kReplace, full_frame = !have_crop || covers
    let mode = any_blend_mode();
    let rc = FrameHeader::resets_canvas(mode, p);
    assert!(rc == (mode == BlendMode::Replace && (!have_crop || full)),
        "[C05,C14] resets_canvas <=> kReplace blending and (no crop or the crop covers the image)");
    if rc && have_crop {
        assert!(in_frame(x0, y0, w, h, px as i64, py as i64), "[C05] a cropped frame that resets the canvas covers every canvas sample");
    }
    if have_crop && mode == BlendMode::Replace && !rc {
        assert!(!(in_frame(x0, y0, w, h, 0, 0) && in_frame(x0, y0, w, h, iw as i64 - 1, ih as i64 - 1)),
            "[C05] a kReplace frame that does not reset the canvas leaves some canvas sample uncovered");
    }
    if mode != BlendMode::Replace {
        assert!(!rc, "[C05] only kReplace resets the canvas");
    }
    kani::cover!(full && x0 < 0 && y0 < 0);
    kani::cover!(!full && x0 == 0 && y0 == 0);
    kani::cover!(!full && x0 > 0 && w > iw);
    kani::cover!(rc && have_crop);
    kani::cover!(!rc && mode == BlendMode::Replace);
}

// ---------------------------------------------------------------------------------------------------
// C05: is_keyframe / can_reference / enum helpers over every field value; the all-default header
// ---------------------------------------------------------------------------------------------------
#[kani::proof]
fn predicates_contract() {
    let ih = image_header_with(kani::any(), kani::any());
    let mut fh = default_frame_header(&ih);
    // the all_default frame header of the standard: one regular, last, full-size VarDCT frame that replaces the canvas
    assert!(fh.frame_type == FrameType::RegularFrame && fh.encoding == Encoding::VarDct, "[C14,C05] default frame: regular, VarDCT");
    assert!(fh.is_last && fh.duration == 0 && fh.save_as_reference == 0 && !fh.have_crop, "[C14,C05] default frame: last, no crop");
    assert!(fh.x0 == 0 && fh.y0 == 0 && fh.width == ih.size.width && fh.height == ih.size.height,
        "[C14,C05] default frame has the size of the image and no offset");
    assert!(fh.blending_info.mode == BlendMode::Replace && fh.blending_info.source == 0 && !fh.blending_info.clamp
        && fh.blending_info.alpha_channel == 0, "[C14,C05] default blending: kReplace from slot 0");
    assert!(fh.resets_canvas && !fh.save_before_ct, "[C14,C05] default frame resets the canvas and is saved after the colour transform");
    assert!(fh.upsampling == 1 && fh.group_size_shift == 1 && fh.lf_level == 0 && fh.passes.num_passes == 1,
        "[C14] default frame: no upsampling, 256x256 groups, one pass");
    assert!(fh.is_keyframe() && !fh.can_reference(), "[C05] the default (last) frame is shown and cannot be referenced");

    let ft = any_frame_type();
    let (is_last, duration, sar): (bool, u32, u32) = (kani::any(), kani::any(), kani::any());
    kani::assume(sar <= 3); // u(2)
    fh.frame_type = ft;
    fh.is_last = is_last;
    fh.duration = duration;
    fh.save_as_reference = sar;
    let normal = ft == FrameType::RegularFrame || ft == FrameType::SkipProgressive;
    assert!(ft.is_normal_frame() == normal, "[C05] normal frames are kRegularFrame and kSkipProgressive");
    assert!(ft.is_progressive_frame() == (ft == FrameType::RegularFrame || ft == FrameType::LfFrame), "[C05] is_progressive_frame");
    assert!(fh.is_keyframe() == (normal && (is_last || duration != 0)),
        "[C05] a frame is shown iff it is a normal frame that is last or has non-zero duration");
    assert!(fh.can_reference() == (!is_last && (duration == 0 || sar != 0) && ft != FrameType::LfFrame),
        "[C05] can_reference <=> !is_last && (duration == 0 || save_as_reference != 0) && frame_type != kLFFrame");
    let m = any_blend_mode();
    assert!(m.use_alpha() == (m == BlendMode::Blend || m == BlendMode::MulAdd), "[C05] only kBlend and kMulAdd use an alpha channel");
    kani::cover!(fh.is_keyframe() && !is_last);
    kani::cover!(fh.can_reference() && duration != 0);
    kani::cover!(!fh.can_reference() && !is_last && ft != FrameType::LfFrame);
}

// ---------------------------------------------------------------------------------------------------
// C01 / C14: geometry helpers, one instantiation per (upsampling, group_size_shift, lf_level)
// ---------------------------------------------------------------------------------------------------
/// ceil(a / 2^k) on mathematical integers (all divisors here are powers of two)
fn cdiv_pow2(a: u64, k: u32) -> u64 {
    (a + (1u64 << k) - 1) >> k
}

// sections of the geometry contract (bit mask P), so that cheap complete parts and expensive parts can be
// discharged by separate harnesses
const G_DIMS: u32 = 1;
const G_COUNTS: u32 = 2;
const G_COORD: u32 = 4;
const G_SIZE: u32 = 8;
const G_LF: u32 = 16;
const G_OUTSIDE: u32 = 32;
const G_COLLIDE: u32 = 64;
const G_TOTAL: u32 = 128;

#[inline(always)]
fn geometry<const UP: u32, const GSS: u32, const LF: u32, const P: u32, const MAXG: u64, const MAXGH: u64>() {
    let ih = image_header_with(1, 1); // the image size is not an input of these methods
    let mut fh = default_frame_header(&ih);
    let (w, h): (u32, u32) = (kani::any(), kani::any());
    kani::assume(1 <= w && w <= 1 << 30 && 1 <= h && h <= 1 << 30); // lib.rs:124-133, :207
    kani::assume((w as u64) * (h as u64) <= 1 << 40); // lib.rs:134
    fh.width = w;
    fh.height = h;
    fh.upsampling = UP;
    fh.group_size_shift = GSS;
    fh.lf_level = LF;
    if LF > 0 {
        fh.frame_type = FrameType::LfFrame;
    }

    // ---- specification, u64 arithmetic -----------------------------------------------------------
    let sw = cdiv_pow2(cdiv_pow2(w as u64, UP.trailing_zeros()), 3 * LF);
    let sh = cdiv_pow2(cdiv_pow2(h as u64, UP.trailing_zeros()), 3 * LF);
    let shift = 7 + GSS;
    let gd = 1u64 << shift;
    let lgd = 8 * gd;
    let gpr = cdiv_pow2(sw, shift);
    let gpc = cdiv_pow2(sh, shift);
    let lgpr = cdiv_pow2(sw, shift + 3);
    let lgpc = cdiv_pow2(sh, shift + 3);
    if MAXG != 0 {
        // bounded instantiation: at most MAXG x MAXG groups
        kani::assume(gpr <= MAXG);
    }
    if MAXGH != 0 {
        kani::assume(gpc <= MAXGH);
    }

    if P & G_DIMS != 0 {
        assert!(fh.sample_width(UP) as u64 == sw && fh.sample_height(UP) as u64 == sh,
            "[C14,C01] sample size = ceil(ceil(size / upsampling) / 8^lf_level)");
        assert!(fh.color_sample_width() as u64 == sw && fh.color_sample_height() as u64 == sh, "[C14,C01] colour sample size uses the frame's upsampling");
        assert!(sw >= 1 && sh >= 1, "[C01] a valid frame has at least one sample");
        assert!(fh.group_dim() as u64 == gd && fh.lf_group_dim() as u64 == lgd, "[C14] group_dim = 128 << group_size_shift, lf_group_dim = 8 * group_dim");
        assert!(fh.groups_per_row() as u64 == gpr && fh.lf_groups_per_row() as u64 == lgpr, "[C14,C01] groups per row = ceil(width' / dim)");
    }
    if P & G_COUNTS != 0 {
        assert!(fh.num_groups() as u64 == gpr * gpc, "[C14,C01] num_groups = ceil(w'/group_dim) * ceil(h'/group_dim)");
        assert!(fh.num_lf_groups() as u64 == lgpr * lgpc, "[C14,C01] num_lf_groups = ceil(w'/lf_group_dim) * ceil(h'/lf_group_dim)");
    }

    if P & G_TOTAL != 0 {
        // size_for is total for EVERY index (also out of range ones): divisors are non-zero because width' >= 1
        let any_idx: u32 = kani::any();
        let (a, b) = fh.group_size_for(any_idx);
        let (c, d) = fh.lf_group_size_for(any_idx);
        assert!(a as u64 <= gd && b as u64 <= gd && c as u64 <= lgd && d as u64 <= lgd, "[C01,C14] group sizes never exceed the group dimension");
    }

    // vacuity guards of the sections (a cover inside a section that this instantiation leaves out must not count as unsatisfied)
    let (mut cov_size_a, mut cov_size_b, mut cov_lf, mut cov_out_a, mut cov_out_b, mut cov_out_c, mut cov_col_a, mut cov_col_b) =
        (P & G_SIZE == 0, P & G_SIZE == 0, P & G_LF == 0, P & G_OUTSIDE == 0, P & G_OUTSIDE == 0, P & G_OUTSIDE == 0, P & G_COLLIDE == 0, P & G_COLLIDE == 0);

    // ---- groups tile the frame: every in-frame sample (x, y) lies in exactly the group the index maps say --------
    let (x, y): (u32, u32) = (kani::any(), kani::any());
    kani::assume((x as u64) < sw && (y as u64) < sh);
    let col = (x >> shift) as u64;
    let row = (y >> shift) as u64;
    let idx = (row * gpr + col) as u32;
    let (lcol, lrow) = (col / 8, row / 8);
    let lfidx = lrow * lgpr + lcol;
    if P & G_COORD != 0 {
        assert!(row * gpr + col < gpr * gpc);
        assert!(fh.group_idx_from_coord(x, y) == Some(idx), "[C14,C01] group_idx_from_coord = raster index of the 2^(7+shift) cell of the sample");
    }
    if P & G_SIZE != 0 {
        let (gw, gh) = fh.group_size_for(idx);
        let (gw, gh) = (gw as u64, gh as u64);
        assert!(gw == gd.min(sw - col * gd) && gh == gd.min(sh - row * gd), "[C14,C01] group size = group_dim clipped to the frame");
        assert!(col * gd <= x as u64 && (x as u64) < col * gd + gw && row * gd <= y as u64 && (y as u64) < row * gd + gh,
            "[C14] the sample lies inside the rectangle of its group: groups cover the frame");
        assert!(gw >= 1 && gh >= 1 && gw <= gd && gh <= gd && col * gd + gw <= sw && row * gd + gh <= sh,
            "[C14] every group is non-empty, inside its grid cell (so groups are disjoint) and inside the frame");
        // (with upsampling 8 and lf_level 4 the area limit leaves at most one group per axis pair, so the guards are per axis)
        cov_size_a = gw < gd && col > 0;
        cov_size_b = gw == gd && gh < gd;
    }
    if P & G_LF != 0 {
        // LF group of that group, consistent with coordinates
        let lf = fh.lf_group_idx_from_group_idx(idx) as u64;
        assert!(lf == lfidx && lf < lgpr * lgpc, "[C14,C01] lf_group_idx_from_group_idx = raster index of the 8x8-group cell");
        assert!(lcol * lgd <= x as u64 && (x as u64) < (lcol + 1) * lgd && lrow * lgd <= y as u64 && (y as u64) < (lrow + 1) * lgd,
            "[C14] the LF group of a group contains the group's samples");
        let (lw, lh) = fh.lf_group_size_for(lfidx as u32);
        assert!(lw as u64 == lgd.min(sw - lcol * lgd) && lh as u64 == lgd.min(sh - lrow * lgd), "[C14,C01] LF group size = lf_group_dim clipped to the frame");
        cov_lf = lcol > 0;
    }

    if P & G_OUTSIDE != 0 {
        // ---- coordinates outside the frame: None exactly outside the group grid ---------------------------------
        // precondition: the index computation itself does not overflow (the only caller, jxl-jbr/src/reconstruct/scan.rs:419,
        // passes block coordinates inside the padded frame; see the report for what happens beyond)
        let (ox, oy): (u32, u32) = (kani::any(), kani::any());
        let (ogx, ogy) = ((ox >> shift) as u64, (oy >> shift) as u64);
        kani::assume(ogy * gpr + ogx <= u32::MAX as u64);
        let r = fh.group_idx_from_coord(ox, oy);
        if ogx < gpr && ogy < gpc {
            assert!(r == Some((ogy * gpr + ogx) as u32), "[C14,C01] inside the group grid: the raster index");
        } else {
            assert!(r.is_none(), "[C14,C01] outside the group grid: None");
        }
        cov_out_a = r.is_none() && ogx >= gpr;
        cov_out_b = r.is_none() && ogx < gpr;
        cov_out_c = r.is_some() && ox as u64 >= sw;
    }

    if P & G_COLLIDE != 0 {
        // ---- collision predicates == the rectangles share a point ------------------------------------------------
        // no caller in the workspace; preconditions: region non-empty, right/bottom edge representable in u32, index valid
        let (rx, ry, rw, rh): (u32, u32, u32, u32) = (kani::any(), kani::any(), kani::any(), kani::any());
        kani::assume(rw >= 1 && rh >= 1 && rx as u64 + rw as u64 <= u32::MAX as u64 && ry as u64 + rh as u64 <= u32::MAX as u64);
        let inside = |l: u64, t: u64, d: u64, px: u64, py: u64| l <= px && px < l + d && t <= py && py < t + d;
        let in_region = |px: u64, py: u64| rx as u64 <= px && px < rx as u64 + rw as u64 && ry as u64 <= py && py < ry as u64 + rh as u64;
        // two rectangles intersect iff the point (max of lefts, max of tops) belongs to both
        let (gl, gt) = (col * gd, row * gd);
        let (wx, wy) = (gl.max(rx as u64), gt.max(ry as u64));
        let spec = inside(gl, gt, gd, wx, wy) && in_region(wx, wy);
        let gc = fh.is_group_collides_region(idx, (rx, ry, rw, rh));
        assert!(gc == spec, "[C14,C01] is_group_collides_region <=> region and group cell share a sample");
        let (ll, lt) = (lcol * lgd, lrow * lgd);
        let (wx, wy) = (ll.max(rx as u64), lt.max(ry as u64));
        let spec = inside(ll, lt, lgd, wx, wy) && in_region(wx, wy);
        let lc = fh.is_lf_group_collides_region(lfidx as u32, (rx, ry, rw, rh));
        assert!(lc == spec, "[C14,C01] is_lf_group_collides_region <=> region and LF group cell share a sample");
        if in_region(x as u64, y as u64) {
            assert!(gc && lc, "[C14] a region containing a sample collides with the group and the LF group of that sample");
        }
        cov_col_a = gc && !in_region(x as u64, y as u64);
        cov_col_b = !gc && lc;
    }
    kani::cover!(cov_size_a);
    kani::cover!(cov_size_b);
    kani::cover!(cov_lf);
    kani::cover!(cov_out_a);
    kani::cover!(cov_out_b);
    kani::cover!(cov_out_c);
    kani::cover!(cov_col_a);
    kani::cover!(cov_col_b);
    kani::cover!(w == 1 << 30 || MAXG != 0);
    kani::cover!(gpr == MAXG || MAXG == 0);
}

// geom_*   : complete -- all frame sizes Frame::parse lets through: sample size, group counts, panic-freedom of size_for
// tile_*   : bounded  -- frames of at most 16 x 16 groups (tile64_*: 64 x 64): everything that involves the product or
//                        quotient of two symbolic quantities (index <-> coordinate maps, group sizes, collisions).
//                        CBMC does not get through 23-bit x 23-bit Euclidean-division reasoning, see the report.
macro_rules! geometry_harnesses {
    ($(($geom:ident, $tile:ident, $tile64:ident): $up:literal, $gss:literal, $lf:literal;)*) => {
        $(
            #[kani::proof] fn $geom() { geometry::<$up, $gss, $lf, { G_DIMS | G_COUNTS | G_TOTAL }, 0, 0>(); }
            #[kani::proof] fn $tile() { geometry::<$up, $gss, $lf, { G_COORD | G_SIZE | G_LF | G_OUTSIDE | G_COLLIDE }, 16, 16>(); }
            #[kani::proof] fn $tile64() { geometry::<$up, $gss, $lf, { G_COORD | G_SIZE | G_LF | G_OUTSIDE | G_COLLIDE }, 64, 64>(); }
        )*
    };
}

geometry_harnesses! {
    (geom_u1_g0_l0, tile_u1_g0_l0, tile64_u1_g0_l0): 1, 0, 0; (geom_u1_g0_l1, tile_u1_g0_l1, tile64_u1_g0_l1): 1, 0, 1; (geom_u1_g0_l2, tile_u1_g0_l2, tile64_u1_g0_l2): 1, 0, 2; (geom_u1_g0_l3, tile_u1_g0_l3, tile64_u1_g0_l3): 1, 0, 3; (geom_u1_g0_l4, tile_u1_g0_l4, tile64_u1_g0_l4): 1, 0, 4;
    (geom_u1_g1_l0, tile_u1_g1_l0, tile64_u1_g1_l0): 1, 1, 0; (geom_u1_g1_l1, tile_u1_g1_l1, tile64_u1_g1_l1): 1, 1, 1; (geom_u1_g1_l2, tile_u1_g1_l2, tile64_u1_g1_l2): 1, 1, 2; (geom_u1_g1_l3, tile_u1_g1_l3, tile64_u1_g1_l3): 1, 1, 3; (geom_u1_g1_l4, tile_u1_g1_l4, tile64_u1_g1_l4): 1, 1, 4;
    (geom_u1_g2_l0, tile_u1_g2_l0, tile64_u1_g2_l0): 1, 2, 0; (geom_u1_g2_l1, tile_u1_g2_l1, tile64_u1_g2_l1): 1, 2, 1; (geom_u1_g2_l2, tile_u1_g2_l2, tile64_u1_g2_l2): 1, 2, 2; (geom_u1_g2_l3, tile_u1_g2_l3, tile64_u1_g2_l3): 1, 2, 3; (geom_u1_g2_l4, tile_u1_g2_l4, tile64_u1_g2_l4): 1, 2, 4;
    (geom_u1_g3_l0, tile_u1_g3_l0, tile64_u1_g3_l0): 1, 3, 0; (geom_u1_g3_l1, tile_u1_g3_l1, tile64_u1_g3_l1): 1, 3, 1; (geom_u1_g3_l2, tile_u1_g3_l2, tile64_u1_g3_l2): 1, 3, 2; (geom_u1_g3_l3, tile_u1_g3_l3, tile64_u1_g3_l3): 1, 3, 3; (geom_u1_g3_l4, tile_u1_g3_l4, tile64_u1_g3_l4): 1, 3, 4;
    (geom_u2_g0_l0, tile_u2_g0_l0, tile64_u2_g0_l0): 2, 0, 0; (geom_u2_g0_l1, tile_u2_g0_l1, tile64_u2_g0_l1): 2, 0, 1; (geom_u2_g0_l2, tile_u2_g0_l2, tile64_u2_g0_l2): 2, 0, 2; (geom_u2_g0_l3, tile_u2_g0_l3, tile64_u2_g0_l3): 2, 0, 3; (geom_u2_g0_l4, tile_u2_g0_l4, tile64_u2_g0_l4): 2, 0, 4;
    (geom_u2_g1_l0, tile_u2_g1_l0, tile64_u2_g1_l0): 2, 1, 0; (geom_u2_g1_l1, tile_u2_g1_l1, tile64_u2_g1_l1): 2, 1, 1; (geom_u2_g1_l2, tile_u2_g1_l2, tile64_u2_g1_l2): 2, 1, 2; (geom_u2_g1_l3, tile_u2_g1_l3, tile64_u2_g1_l3): 2, 1, 3; (geom_u2_g1_l4, tile_u2_g1_l4, tile64_u2_g1_l4): 2, 1, 4;
    (geom_u2_g2_l0, tile_u2_g2_l0, tile64_u2_g2_l0): 2, 2, 0; (geom_u2_g2_l1, tile_u2_g2_l1, tile64_u2_g2_l1): 2, 2, 1; (geom_u2_g2_l2, tile_u2_g2_l2, tile64_u2_g2_l2): 2, 2, 2; (geom_u2_g2_l3, tile_u2_g2_l3, tile64_u2_g2_l3): 2, 2, 3; (geom_u2_g2_l4, tile_u2_g2_l4, tile64_u2_g2_l4): 2, 2, 4;
    (geom_u2_g3_l0, tile_u2_g3_l0, tile64_u2_g3_l0): 2, 3, 0; (geom_u2_g3_l1, tile_u2_g3_l1, tile64_u2_g3_l1): 2, 3, 1; (geom_u2_g3_l2, tile_u2_g3_l2, tile64_u2_g3_l2): 2, 3, 2; (geom_u2_g3_l3, tile_u2_g3_l3, tile64_u2_g3_l3): 2, 3, 3; (geom_u2_g3_l4, tile_u2_g3_l4, tile64_u2_g3_l4): 2, 3, 4;
    (geom_u4_g0_l0, tile_u4_g0_l0, tile64_u4_g0_l0): 4, 0, 0; (geom_u4_g0_l1, tile_u4_g0_l1, tile64_u4_g0_l1): 4, 0, 1; (geom_u4_g0_l2, tile_u4_g0_l2, tile64_u4_g0_l2): 4, 0, 2; (geom_u4_g0_l3, tile_u4_g0_l3, tile64_u4_g0_l3): 4, 0, 3; (geom_u4_g0_l4, tile_u4_g0_l4, tile64_u4_g0_l4): 4, 0, 4;
    (geom_u4_g1_l0, tile_u4_g1_l0, tile64_u4_g1_l0): 4, 1, 0; (geom_u4_g1_l1, tile_u4_g1_l1, tile64_u4_g1_l1): 4, 1, 1; (geom_u4_g1_l2, tile_u4_g1_l2, tile64_u4_g1_l2): 4, 1, 2; (geom_u4_g1_l3, tile_u4_g1_l3, tile64_u4_g1_l3): 4, 1, 3; (geom_u4_g1_l4, tile_u4_g1_l4, tile64_u4_g1_l4): 4, 1, 4;
    (geom_u4_g2_l0, tile_u4_g2_l0, tile64_u4_g2_l0): 4, 2, 0; (geom_u4_g2_l1, tile_u4_g2_l1, tile64_u4_g2_l1): 4, 2, 1; (geom_u4_g2_l2, tile_u4_g2_l2, tile64_u4_g2_l2): 4, 2, 2; (geom_u4_g2_l3, tile_u4_g2_l3, tile64_u4_g2_l3): 4, 2, 3; (geom_u4_g2_l4, tile_u4_g2_l4, tile64_u4_g2_l4): 4, 2, 4;
    (geom_u4_g3_l0, tile_u4_g3_l0, tile64_u4_g3_l0): 4, 3, 0; (geom_u4_g3_l1, tile_u4_g3_l1, tile64_u4_g3_l1): 4, 3, 1; (geom_u4_g3_l2, tile_u4_g3_l2, tile64_u4_g3_l2): 4, 3, 2; (geom_u4_g3_l3, tile_u4_g3_l3, tile64_u4_g3_l3): 4, 3, 3; (geom_u4_g3_l4, tile_u4_g3_l4, tile64_u4_g3_l4): 4, 3, 4;
    (geom_u8_g0_l0, tile_u8_g0_l0, tile64_u8_g0_l0): 8, 0, 0; (geom_u8_g0_l1, tile_u8_g0_l1, tile64_u8_g0_l1): 8, 0, 1; (geom_u8_g0_l2, tile_u8_g0_l2, tile64_u8_g0_l2): 8, 0, 2; (geom_u8_g0_l3, tile_u8_g0_l3, tile64_u8_g0_l3): 8, 0, 3; (geom_u8_g0_l4, tile_u8_g0_l4, tile64_u8_g0_l4): 8, 0, 4;
    (geom_u8_g1_l0, tile_u8_g1_l0, tile64_u8_g1_l0): 8, 1, 0; (geom_u8_g1_l1, tile_u8_g1_l1, tile64_u8_g1_l1): 8, 1, 1; (geom_u8_g1_l2, tile_u8_g1_l2, tile64_u8_g1_l2): 8, 1, 2; (geom_u8_g1_l3, tile_u8_g1_l3, tile64_u8_g1_l3): 8, 1, 3; (geom_u8_g1_l4, tile_u8_g1_l4, tile64_u8_g1_l4): 8, 1, 4;
    (geom_u8_g2_l0, tile_u8_g2_l0, tile64_u8_g2_l0): 8, 2, 0; (geom_u8_g2_l1, tile_u8_g2_l1, tile64_u8_g2_l1): 8, 2, 1; (geom_u8_g2_l2, tile_u8_g2_l2, tile64_u8_g2_l2): 8, 2, 2; (geom_u8_g2_l3, tile_u8_g2_l3, tile64_u8_g2_l3): 8, 2, 3; (geom_u8_g2_l4, tile_u8_g2_l4, tile64_u8_g2_l4): 8, 2, 4;
    (geom_u8_g3_l0, tile_u8_g3_l0, tile64_u8_g3_l0): 8, 3, 0; (geom_u8_g3_l1, tile_u8_g3_l1, tile64_u8_g3_l1): 8, 3, 1; (geom_u8_g3_l2, tile_u8_g3_l2, tile64_u8_g3_l2): 8, 3, 2; (geom_u8_g3_l3, tile_u8_g3_l3, tile64_u8_g3_l3): 8, 3, 3; (geom_u8_g3_l4, tile_u8_g3_l4, tile64_u8_g3_l4): 8, 3, 4;
}

// ---------------------------------------------------------------------------------------------------
// C14: BlendingInfo  --  parse(spec_enc(h)) == h, exact bit count (18181-1 F.2, table "BlendingInfo")
//
//   mode           U32(0, 1, 2, 3 + u(2))                  kReplace, kAdd, kBlend, kMulAdd, kMul; 5 and 6 are invalid
//   alpha_channel  U32(0, 1, 2, 3 + u(3))   if extra && (mode == kBlend || mode == kMulAdd)           default 0
//   clamp          Bool()                   if (extra && (mode == kBlend || mode == kMulAdd)) || mode == kMul   default false
//   source         u(2)                     if !resets_canvas                                                  default 0
// where extra = the image has extra channels and resets_canvas = full_frame && blending_info.mode == kReplace is
// a property of the FRAME: for the entries of ec_blending_info it is computed from the colour channels'
// blending mode (context.1 = Some(blending_info.mode)), for blending_info itself from its own mode.
// (libjxl's field visitor uses each entry's own mode there; the two readings differ only for a full-size frame
// whose extra-channel mode differs from the colour mode -- noted, not decided here.)
// ---------------------------------------------------------------------------------------------------
/// LSB-first bit writer of 18181-1 section 9 (encoder side), at most 64 bits.
struct SpecWriter {
    acc: u64,
    n: u32,
}
impl SpecWriter {
    fn u(&mut self, v: u32, bits: u32) {
        self.acc |= (v as u64) << self.n;
        self.n += bits;
    }
    /// U32(d0, d1, d2, d3) where selector `sel` has `bits` extra bits carrying `payload`
    fn u32(&mut self, sel: u32, payload: u32, bits: u32) {
        self.u(sel, 2);
        self.u(payload, bits);
    }
    fn bytes(&self, garbage: u64) -> [u8; 8] {
        // bits after the last written one are arbitrary: parsing must not depend on them
        let v = if self.n >= 64 { self.acc } else { self.acc | (garbage << self.n) };
        v.to_le_bytes()
    }
}

#[kani::proof]
#[kani::unwind(10)]
fn blending_info_roundtrip() {
    let hdr = image_header_with(kani::any(), kani::any());
    kani::assume(hdr.size.width >= 1 && hdr.size.height >= 1);
    let canvas = CanvasSizeParams {
        have_crop: kani::any(), x0: kani::any(), y0: kani::any(), width: kani::any(), height: kani::any(), size: &hdr.size,
    };
    let extra: bool = kani::any();
    let colour_mode: Option<BlendMode> = if kani::any() { Some(any_blend_mode()) } else { None };

    // the value to be written: raw mode 0..=6, everything else in its coded range
    let raw_mode: u32 = kani::any();
    kani::assume(raw_mode <= 6);
    let (alpha_channel, clamp, source): (u32, bool, u32) = (kani::any(), kani::any(), kani::any());
    kani::assume(alpha_channel <= 10 && source <= 3);
    let uses_alpha = raw_mode == 2 || raw_mode == 3;
    let has_alpha_field = extra && uses_alpha;
    let has_clamp_field = (extra && uses_alpha) || raw_mode == 4;
    let frame_mode_is_replace = match colour_mode {
        Some(m) => m == BlendMode::Replace,
        None => raw_mode == 0,
    };
    // full_frame as proved in full_image_contract
    let full_frame = !canvas.have_crop || FrameHeader::test_full_image(canvas);
    let has_source_field = !(full_frame && frame_mode_is_replace);
    kani::assume(has_alpha_field || alpha_channel == 0);
    kani::assume(has_clamp_field || !clamp);
    kani::assume(has_source_field || source == 0);

    let mut wr = SpecWriter { acc: 0, n: 0 };
    if raw_mode < 3 { wr.u32(raw_mode, 0, 0) } else { wr.u32(3, raw_mode - 3, 2) }
    if has_alpha_field {
        if alpha_channel < 3 { wr.u32(alpha_channel, 0, 0) } else { wr.u32(3, alpha_channel - 3, 3) }
    }
    if has_clamp_field { wr.u(clamp as u32, 1) }
    if has_source_field { wr.u(source, 2) }
    let bytes = wr.bytes(kani::any());
    let len: usize = kani::any();
    kani::assume(len <= 8);
    let mut bs = Bitstream::new(&bytes[..len]);
    let r = BlendingInfo::parse(&mut bs, (extra, colour_mode, canvas));
    if (len as u32) * 8 < wr.n {
        // truncated (C11): never a value
        assert!(matches!(&r, Err(crate::Error::Bitstream(e)) if e.unexpected_eof()) || (raw_mode > 4 && r.is_err()),
            "[C14] a truncated BlendingInfo is unexpected-eof");
        return;
    }
    match r {
        Ok(b) => {
            assert!(raw_mode <= 4, "[C14] BlendMode 5 and 6 are rejected");
            assert!(b.mode as u32 == raw_mode, "[C14,C05] BlendingInfo.mode is reported as encoded");
            assert!(b.alpha_channel == alpha_channel, "[C14,C05] BlendingInfo.alpha_channel is reported as encoded (default 0)");
            assert!(b.clamp == clamp, "[C14,C05] BlendingInfo.clamp is reported as encoded (default false)");
            assert!(b.source == source, "[C14,C05] BlendingInfo.source is reported as encoded, present iff the frame does not reset the canvas");
            assert!(bs.num_read_bits() == wr.n as usize, "[C14] BlendingInfo parsing stops at exactly the bit the writer stopped at");
        }
        Err(e) => {
            assert!(raw_mode > 4, "[C14] a valid BlendingInfo is accepted");
            assert!(matches!(e, crate::Error::Bitstream(jxl_bitstream::Error::InvalidEnum { value, .. }) if value == raw_mode),
                "[C14] an invalid blend mode is reported as InvalidEnum");
        }
    }
    kani::cover!(wr.n == 12);
    kani::cover!(wr.n == 2 && len >= 1);
    kani::cover!(raw_mode == 4 && clamp && !extra && len == 8);
    kani::cover!(raw_mode == 5 && len == 8);
    kani::cover!(colour_mode == Some(BlendMode::Replace) && raw_mode == 1 && !has_source_field && len == 8);
    kani::cover!(has_source_field && raw_mode == 0 && canvas.have_crop && len == 8);
}

// (Passes: parse(spec_enc(h)) == h was attempted with num_passes <= 4, num_ds <= 2 on an 8-byte buffer and does not
//  close in CBMC within 10 minutes -- three `Vec` collects of `Result`s with symbolic lengths -- so there is no
//  obligation for it; the U32 / u(n) readers it is built from are covered by the jxl-bitstream contracts.)

// ---------------------------------------------------------------------------------------------------
// canary: same pipeline, same header construction, must FAIL
// ---------------------------------------------------------------------------------------------------
#[kani::proof]
fn canary() {
    let ih = image_header_with(kani::any(), kani::any());
    let fh = default_frame_header(&ih);
    assert!(fh.width != 13, "canary: must fail");
}
