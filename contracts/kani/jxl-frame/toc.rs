// Contract for crates/jxl-frame/src/data/toc.rs: Toc::group_index_bitstream_order (child module: builds a `Toc`
// from its private fields -- `Toc::parse` sits behind the entropy decoder and is out of reach).
//
// 18181-1, table of contents: a frame with num_groups == 1 and num_passes == 1 has ONE section holding everything;
// otherwise the sections are, in this order,
//      LfGlobal | LfGroup[0 .. num_lf_groups) | HfGlobal | for pass in 0..num_passes: PassGroup[pass][0 .. num_groups)
// and, if the TOC is permuted, section s of that order is stored at position permutation[s] of the bitstream.
//
// Data-structure invariant established by Toc::parse (toc.rs:184-268), taken as precondition:
//      groups.len() == 1                                              if single entry
//      groups.len() == 1 + num_lf_groups + 1 + num_groups * num_passes otherwise (not 1)
//      original_to_bitstream is empty or a permutation of 0..groups.len() (read_permutation), bitstream_to_original its inverse
// Preconditions on the argument (what the callers in jxl-frame/src/lib.rs:339,415,536,597 establish: they ask for
// LfGlobal / LfGroup(i < num_lf_groups) / HfGlobal / GroupPass(pass < num_passes, group < num_groups) only on the
// multi-section branch, and for All only on the single-section branch).
use super::*;

const MAX_LF: usize = 2;
const MAX_GROUPS: usize = 3;
const MAX_PASSES: usize = 2;
const MAX_LEN: usize = 1 + MAX_LF + 1 + MAX_GROUPS * MAX_PASSES;

#[kani::proof]
#[kani::unwind(12)]
fn section_order_contract() {
    let num_lf_groups: usize = kani::any();
    let num_groups: usize = kani::any();
    let num_passes: usize = kani::any();
    kani::assume(1 <= num_lf_groups && num_lf_groups <= MAX_LF);
    kani::assume(1 <= num_groups && num_groups <= MAX_GROUPS);
    kani::assume(1 <= num_passes && num_passes <= MAX_PASSES);
    let single = num_groups == 1 && num_passes == 1;
    let len = if single { 1 } else { 1 + num_lf_groups + 1 + num_groups * num_passes };

    // a symbolic permutation of 0..len (or none)
    let permuted: bool = kani::any();
    let perm: [usize; MAX_LEN] = kani::any();
    let mut original_to_bitstream = Vec::new();
    let mut bitstream_to_original = Vec::new();
    let mut groups = Vec::new();
    let mut i = 0;
    while i < MAX_LEN {
        if i < len {
            groups.push(TocGroup { kind: TocGroupKind::All, offset: 0, size: 0 });
            if permuted {
                kani::assume(perm[i] < len);
                let mut j = 0;
                while j < i {
                    kani::assume(perm[j] != perm[i]);
                    j += 1;
                }
                original_to_bitstream.push(perm[i]);
                bitstream_to_original.push(0); // not read by the function under contract
            }
        }
        i += 1;
    }
    let toc = Toc { num_lf_groups, num_groups, groups, bitstream_to_original, original_to_bitstream, total_size: 0 };
    assert!(toc.is_single_entry() == single, "[C14] single-section frame <=> one group and one pass");

    // the argument
    let which: u8 = kani::any();
    let (a, b): (u32, u32) = (kani::any(), kani::any());
    let (kind, order) = if single {
        (TocGroupKind::All, 0usize)
    } else {
        match which {
            0 => (TocGroupKind::LfGlobal, 0),
            1 => {
                kani::assume((a as usize) < num_lf_groups);
                (TocGroupKind::LfGroup(a), 1 + a as usize)
            }
            2 => (TocGroupKind::HfGlobal, 1 + num_lf_groups),
            _ => {
                kani::assume((a as usize) < num_passes && (b as usize) < num_groups);
                (TocGroupKind::GroupPass { pass_idx: a, group_idx: b }, 1 + num_lf_groups + 1 + a as usize * num_groups + b as usize)
            }
        }
    };
    let r = toc.group_index_bitstream_order(kind);
    assert!(order < len, "[C14] the standard's section index is inside the table");
    assert!(r == if permuted { perm[order] } else { order },
        "[C14] group_index_bitstream_order = position of the section in the standard's order, mapped through the TOC permutation");
    assert!(r < len, "[C14,C01] the returned position indexes the section table");

    // a second, different section never maps to the same position (sections are not confused)
    let which2: u8 = kani::any();
    let (a2, b2): (u32, u32) = (kani::any(), kani::any());
    if !single {
        let kind2 = match which2 {
            0 => TocGroupKind::LfGlobal,
            1 => {
                kani::assume((a2 as usize) < num_lf_groups);
                TocGroupKind::LfGroup(a2)
            }
            2 => TocGroupKind::HfGlobal,
            _ => {
                kani::assume((a2 as usize) < num_passes && (b2 as usize) < num_groups);
                TocGroupKind::GroupPass { pass_idx: a2, group_idx: b2 }
            }
        };
        if kind2 != kind {
            assert!(toc.group_index_bitstream_order(kind2) != r, "[C14] distinct sections have distinct positions");
        }
        // the standard's order is the order of TocGroupKind
        if kind2 < kind && !permuted {
            assert!(toc.group_index_bitstream_order(kind2) < r, "[C14] unpermuted: LfGlobal < LfGroups (raster) < HfGlobal < pass-major PassGroups");
        }
    }
    kani::cover!(single);
    kani::cover!(!single && permuted && r != order && matches!(kind, TocGroupKind::GroupPass { pass_idx: 1, .. }));
    kani::cover!(!single && !permuted && matches!(kind, TocGroupKind::HfGlobal));
    kani::cover!(len == MAX_LEN);
}
