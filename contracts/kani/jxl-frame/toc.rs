// Contract for crates/jxl-frame/src/data/toc.rs: Toc::group_index_bitstream_order (child module: builds a `Toc`
// from its private fields -- `Toc::parse` sits behind the entropy decoder and is out of reach).
//
// 18181-1, table of contents: a frame with num_groups == 1 and num_passes == 1 has ONE section holding everything;
// otherwise the sections are, in this order,
//      LfGlobal | LfGroup[0 .. num_lf_groups) | HfGlobal | for pass in 0..num_passes: PassGroup[pass][0 .. num_groups)
// and, if the TOC is permuted, section s of that order is stored at position permutation[s] of the bitstream.
//
// Data-structure invariant established by Toc::parse (toc.rs:184-268), taken as precondition:
//      groups.len() == 1                                              if single entry
//      groups.len() == 1 + num_lf_groups + 1 + num_groups * num_passes otherwise (not 1)
//      original_to_bitstream is empty or a permutation of 0..groups.len() (read_permutation), bitstream_to_original its inverse
// Preconditions on the argument (what the callers in jxl-frame/src/lib.rs:339,415,536,597 establish: they ask for
// LfGlobal / LfGroup(i < num_lf_groups) / HfGlobal / GroupPass(pass < num_passes, group < num_groups) only on the
// multi-section branch, and for All only on the single-section branch).
use super::*;

/// One instantiation: concrete table shape (Vec construction with a symbolic length exhausts CBMC's memory),
/// symbolic permutation, symbolic section.
fn section_order<const NUM_LF: usize, const NUM_GROUPS: usize, const NUM_PASSES: usize, const LEN: usize>() {
    let (num_lf_groups, num_groups, num_passes) = (NUM_LF, NUM_GROUPS, NUM_PASSES);
    let single = num_groups == 1 && num_passes == 1;
    let len = if single { 1 } else { 1 + num_lf_groups + 1 + num_groups * num_passes };
    assert!(len == LEN);

    // a symbolic permutation of 0..len (or none)
    let permuted: bool = kani::any();
    let perm: [usize; LEN] = kani::any();
    let mut i = 0;
    while i < LEN {
        kani::assume(perm[i] < LEN);
        let mut j = 0;
        while j < i {
            kani::assume(perm[j] != perm[i]);
            j += 1;
        }
        i += 1;
    }
    let groups = [TocGroup { kind: TocGroupKind::All, offset: 0, size: 0 }; LEN].to_vec();
    let original_to_bitstream = if permuted { perm.to_vec() } else { Vec::new() };
    let bitstream_to_original = if permuted { [0usize; LEN].to_vec() } else { Vec::new() }; // not read by the function under contract
    let toc = Toc { num_lf_groups, num_groups, groups, bitstream_to_original, original_to_bitstream, total_size: 0 };
    assert!(toc.is_single_entry() == single, "[C14] single-section frame <=> one group and one pass");

    // the argument
    let which: u8 = kani::any();
    let (a, b): (u32, u32) = (kani::any(), kani::any());
    let (kind, order) = if single {
        (TocGroupKind::All, 0usize)
    } else {
        match which {
            0 => (TocGroupKind::LfGlobal, 0),
            1 => {
                kani::assume((a as usize) < num_lf_groups);
                (TocGroupKind::LfGroup(a), 1 + a as usize)
            }
            2 => (TocGroupKind::HfGlobal, 1 + num_lf_groups),
            _ => {
                kani::assume((a as usize) < num_passes && (b as usize) < num_groups);
                (TocGroupKind::GroupPass { pass_idx: a, group_idx: b }, 1 + num_lf_groups + 1 + a as usize * num_groups + b as usize)
            }
        }
    };
    let r = toc.group_index_bitstream_order(kind);
    assert!(order < len, "[C14] the standard's section index is inside the table");
    assert!(r == if permuted { perm[order] } else { order },
        "[C14] group_index_bitstream_order = position of the section in the standard's order, mapped through the TOC permutation");
    assert!(r < len, "[C14,C01] the returned position indexes the section table");

    // a second, different section never maps to the same position (sections are not confused)
    let which2: u8 = kani::any();
    let (a2, b2): (u32, u32) = (kani::any(), kani::any());
    if !single {
        let kind2 = match which2 {
            0 => TocGroupKind::LfGlobal,
            1 => {
                kani::assume((a2 as usize) < num_lf_groups);
                TocGroupKind::LfGroup(a2)
            }
            2 => TocGroupKind::HfGlobal,
            _ => {
                kani::assume((a2 as usize) < num_passes && (b2 as usize) < num_groups);
                TocGroupKind::GroupPass { pass_idx: a2, group_idx: b2 }
            }
        };
        if kind2 != kind {
            assert!(toc.group_index_bitstream_order(kind2) != r, "[C14] distinct sections have distinct positions");
        }
        // the standard's order is the order of TocGroupKind
        if kind2 < kind && !permuted {
            assert!(toc.group_index_bitstream_order(kind2) < r, "[C14] unpermuted: LfGlobal < LfGroups (raster) < HfGlobal < pass-major PassGroups");
        }
    }
    kani::cover!(single || LEN > 1);
    kani::cover!(single || NUM_PASSES == 1 || (permuted && r != order && matches!(kind, TocGroupKind::GroupPass { pass_idx: 1, .. })));
    kani::cover!(single || (!permuted && matches!(kind, TocGroupKind::HfGlobal)));
}

#[kani::proof]
#[kani::unwind(12)]
fn section_order_contract() {
    section_order::<1, 1, 1, 1>(); // the single-section frame
    section_order::<1, 1, 2, 5>(); // one group, two passes
    section_order::<1, 2, 1, 5>(); // two groups, one pass
    section_order::<2, 3, 2, 10>(); // LF groups, groups and passes all plural
}
