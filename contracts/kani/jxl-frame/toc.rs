// Contract for crates/jxl-frame/src/data/toc.rs: Toc::group_index_bitstream_order (child module: builds a `Toc`
// from its private fields -- `Toc::parse` sits behind the entropy decoder and is out of reach).
//
// 18181-1, table of contents: a frame with num_groups == 1 and num_passes == 1 has ONE section holding everything;
// otherwise the sections are, in this order,
//      LfGlobal | LfGroup[0 .. num_lf_groups) | HfGlobal | for pass in 0..num_passes: PassGroup[pass][0 .. num_groups)
// and, if the TOC is permuted, section s of that order is stored at position permutation[s] of the bitstream.
//
// Data-structure invariant established by Toc::parse (toc.rs:184-268), taken as precondition:
//      groups.len() == 1                                              if single entry
//      groups.len() == 1 + num_lf_groups + 1 + num_groups * num_passes otherwise (not 1)
//      original_to_bitstream is empty or a permutation of 0..groups.len() (read_permutation), bitstream_to_original its inverse
// Preconditions on the argument (what the callers in jxl-frame/src/lib.rs:339,415,536,597 establish: they ask for
// LfGlobal / LfGroup(i < num_lf_groups) / HfGlobal / GroupPass(pass < num_passes, group < num_groups) only on the
// multi-section branch, and for All only on the single-section branch).
use super::*;

/// One instantiation: concrete table shape (Vec construction with a symbolic length exhausts CBMC's memory),
/// symbolic permutation, symbolic section.
fn section_order<const NUM_LF: usize, const NUM_GROUPS: usize, const NUM_PASSES: usize, const LEN: usize>() {
    let (num_lf_groups, num_groups, num_passes) = (NUM_LF, NUM_GROUPS, NUM_PASSES);
    let single = num_groups == 1 && num_passes == 1;
    let len = if single { 1 } else { 1 + num_lf_groups + 1 + num_groups * num_passes };
    assert!(len == LEN);

    // a symbolic permutation of 0..len (or none)
    let permuted: bool = kani::any();
    let perm: [usize; LEN] = kani::any();
    let mut i = 0;
    while i < LEN {
        kani::assume(perm[i] < LEN);
        let mut j = 0;
        while j < i {
            kani::assume(perm[j] != perm[i]);
            j += 1;
        }
        i += 1;
    }
    let groups = [TocGroup { kind: TocGroupKind::All, offset: 0, size: 0 }; LEN].to_vec();
    let original_to_bitstream = if permuted { perm.to_vec() } else { Vec::new() };
    let bitstream_to_original = if permuted { [0usize; LEN].to_vec() } else { Vec::new() }; // not read by the function under contract
    let toc = Toc { num_lf_groups, num_groups, groups, bitstream_to_original, original_to_bitstream, total_size: 0 };
    assert!(toc.is_single_entry() == single, "[C14] single-section frame <=> one group and one pass");

    // the argument
    let which: u8 = kani::any();
    let (a, b): (u32, u32) = (kani::any(), kani::any());
    let (kind, order) = if single {
        (TocGroupKind::All, 0usize)
    } else {
        match which {
            0 => (TocGroupKind::LfGlobal, 0),
            1 => {
                kani::assume((a as usize) < num_lf_groups);
                (TocGroupKind::LfGroup(a), 1 + a as usize)
            }
            2 => (TocGroupKind::HfGlobal, 1 + num_lf_groups),
            _ => {
                kani::assume((a as usize) < num_passes && (b as usize) < num_groups);
                (TocGroupKind::GroupPass { pass_idx: a, group_idx: b }, 1 + num_lf_groups + 1 + a as usize * num_groups + b as usize)
            }
        }
    };
    let r = toc.group_index_bitstream_order(kind);
    assert!(order < len, "[C14] the standard's section index is inside the table");
    assert!(r == if permuted { perm[order] } else { order },
        "[C14] group_index_bitstream_order = position of the section in the standard's order, mapped through the TOC permutation");
    assert!(r < len, "[C14,C01] the returned position indexes the section table");

    // a second, different section never maps to the same position (sections are not confused)
    let which2: u8 = kani::any();
    let (a2, b2): (u32, u32) = (kani::any(), kani::any());
    if !single {
        let kind2 = match which2 {
            0 => TocGroupKind::LfGlobal,
            1 => {
                kani::assume((a2 as usize) < num_lf_groups);
                TocGroupKind::LfGroup(a2)
            }
            2 => TocGroupKind::HfGlobal,
            _ => {
                kani::assume((a2 as usize) < num_passes && (b2 as usize) < num_groups);
                TocGroupKind::GroupPass { pass_idx: a2, group_idx: b2 }
            }
        };
        if kind2 != kind {
            assert!(toc.group_index_bitstream_order(kind2) != r, "[C14] distinct sections have distinct positions");
        }
        // the standard's order is the order of TocGroupKind
        if kind2 < kind && !permuted {
            assert!(toc.group_index_bitstream_order(kind2) < r, "[C14] unpermuted: LfGlobal < LfGroups (raster) < HfGlobal < pass-major PassGroups");
        }
    }
    kani::cover!(single || LEN > 1);
    kani::cover!(single || NUM_PASSES == 1 || (permuted && r != order && matches!(kind, TocGroupKind::GroupPass { pass_idx: 1, .. })));
    kani::cover!(single || (!permuted && matches!(kind, TocGroupKind::HfGlobal)));
}

#[kani::proof]
#[kani::unwind(12)]
fn section_order_contract() {
    section_order::<1, 1, 1, 1>(); // the single-section frame
    section_order::<1, 1, 2, 5>(); // one group, two passes
    section_order::<1, 2, 1, 5>(); // two groups, one pass
    section_order::<2, 3, 2, 10>(); // LF groups, groups and passes all plural
}

// ==== Toc::parse (unit toc/aux) ====================================================================================
// Contract for Toc::parse / iter_bitstream_order / bookmark / total_byte_size / adjust_offsets (C14, C01).
//
// 18181-1 F.3 (TOC):  permuted_toc = Bool();  if permuted_toc: permutation = ReadPermutation(entropy stream with 8
// contexts, size = number of entries, skip = 0);  ZeroPadToByte();  toc_entries[k] = U32(u(10), 1024 + u(14),
// 17408 + u(22), 4211712 + u(30)) for k in 0..n -- these are the section sizes IN BITSTREAM ORDER;  ZeroPadToByte().
// The sections follow immediately: the k-th section of the bitstream starts at  end_of_TOC + sum(toc_entries[..k]).
// Section i of the standard's order (LfGlobal, LfGroup.., HfGlobal, PassGroup.. pass-major) is the permutation[i]-th
// section of the bitstream (identity if not permuted).
//
// What is REAL and what is ASSUMED in these harnesses (measured: with none of the stubs CBMC exceeds 14 GB even for the
// one-entry table -- a possible end-of-data Err inside `collect::<Result<Vec<_>, _>>()` makes `sizes.len()` symbolic and
// every later `Vec::with_capacity(sizes.len())` a symbolic-size allocation; the real Decoder::parse on 4 CONCRETE bytes
// does not finish in 400 s because read_clusters builds a HashSet):
//   real     Toc::parse itself; Bitstream::read_bool / zero_pad_to_byte / read_u32 / peek_bits / consume_bits /
//            num_read_bits on symbolic bytes; FrameHeader::num_groups / num_lf_groups on a header built with
//            default_with_context (never parsed); for permuted tables jxl_coding::Decoder::parse / begin / finalize
//            (Lz77::parse, IntegerConfig::parse, prefix::Histogram::parse) on ONE fixed 10-bit histogram header (no
//            LZ77, prefix code with a single symbol) -- a `Decoder` value cannot be obtained in any other way.
//   assumed  (a) enough data: Bitstream::read_bits is replaced by its own body with the end-of-data Err pruned
//                (stub_read_bits). The end-of-data outcome of Toc::parse is therefore NOT covered here.
//            (b) jxl_coding::read_permutation is replaced by its contract: it consumes some bits and returns Err or SOME
//                permutation of 0..size -- every permutation of the table is explored. That the real Lehmer decoder
//                returns a permutation is outside this unit (contracts/kani/jxl-coding/permutation.rs says why it is
//                not under contract).
//            (c) jxl_coding::read_clusters is replaced by "bits 1,00 (simple clustering, 0 bits per context) -> one cluster".
//            (d) unpermuted harnesses: Decoder::parse is replaced by assume(false), i.e. permuted_toc == 0 is the
//                precondition of those harnesses (the flag bit itself stays symbolic).
// Entry counts: the format has no tables of 2..=4 entries (1, or 1 + num_lf_groups + 1 + num_groups * num_passes >= 5).
use jxl_oxide_common::BundleDefault;

// Kani 0.68 pitfall (measured): a `static mut` whose initial bytes equal those of some constant elsewhere in the
// program shares that constant's storage -- with `static mut STUB_BITS: usize = 0` the write STUB_BITS = 125 changed
// alloc::raw_vec::ZERO_CAP, `Vec::new()` got capacity 125 and its drop failed the __rust_dealloc checks. Every static
// below therefore has a unique non-zero initial value and is at least 8 bytes wide.
static mut STUB_PERM: [usize; 8] = [0x7e57_0001, 0x7e57_0002, 0x7e57_0003, 0x7e57_0004, 0x7e57_0005, 0x7e57_0006, 0x7e57_0007, 0x7e57_0008];
static mut STUB_FAIL: u64 = 0x7e57_0009;
static mut STUB_BITS: usize = 0x7e57_000a;
static mut STUB_CALLS: u64 = 0x7e57_000b;
static mut STUB_ARGS: (u64, u64) = (0x7e57_000c, 0x7e57_000d);

fn ok_or_prune<T: Default, E>(r: std::result::Result<T, E>) -> T {
    match r {
        Ok(x) => x,
        Err(_) => {
            kani::assume(false);
            T::default()
        }
    }
}

/// assumption (a): Bitstream::read_bits (bitstream.rs:161) verbatim, end-of-data pruned
fn stub_read_bits<'a>(bs: &mut Bitstream<'a>, n: usize) -> jxl_bitstream::BitstreamResult<u32>
where
    'a: 'a,
{
    let ret = bs.peek_bits(n);
    ok_or_prune(bs.consume_bits(n));
    Ok(ret)
}

/// assumption (b): contract of jxl_coding::read_permutation. One stub per table length: the returned Vec must have a
/// length that is a constant for CBMC's symbolic execution (a merged `Result<Vec<_>, _>` -- Ok or Err chosen by a
/// symbolic flag, or one of several lengths -- has symbolic ptr/cap/len fields and `vec![0; permutation.len()]` then
/// exhausts memory; measured). The Err outcome is therefore a separate, concrete instantiation (STUB_FAIL).
macro_rules! stub_read_permutation {
    ($name:ident, $n:expr) => {
        fn $name(
            bitstream: &mut Bitstream,
            _decoder: &mut jxl_coding::Decoder,
            size: u32,
            skip: u32,
        ) -> jxl_coding::CodingResult<Vec<usize>> {
            let (perm, fail, bits) = unsafe {
                STUB_CALLS += 1;
                STUB_ARGS = (size as u64, skip as u64);
                (STUB_PERM, STUB_FAIL, STUB_BITS)
            };
            if fail != 0 {
                return Err(jxl_coding::Error::InvalidPermutation);
            }
            ok_or_prune(bitstream.skip_bits(bits));
            let mut out = [0usize; $n];
            out.copy_from_slice(&perm[..$n]);
            Ok(out.to_vec())
        }
    };
}
stub_read_permutation!(stub_read_permutation_1, 1);
stub_read_permutation!(stub_read_permutation_5, 5);
stub_read_permutation!(stub_read_permutation_7, 7);

/// assumption (c)
fn stub_read_clusters(bitstream: &mut Bitstream, num_dist: u32) -> jxl_coding::CodingResult<(u32, Vec<u8>)> {
    let is_simple = ok_or_prune(bitstream.read_bits(1));
    let nbits = ok_or_prune(bitstream.read_bits(2));
    kani::assume(is_simple == 1 && nbits == 0 && num_dist == 8);
    Ok((1, [0u8; 8].to_vec()))
}

/// assumption (d)
fn stub_decoder_unreachable(_b: &mut Bitstream, _n: u32) -> jxl_coding::CodingResult<jxl_coding::Decoder> {
    kani::assume(false);
    Err(jxl_coding::Error::InvalidPermutation)
}

fn toc_header(width: u32, height: u32, num_passes: u32) -> crate::FrameHeader {
    let mut size = <jxl_image::SizeHeader as BundleDefault<()>>::default_with_context(());
    size.width = width;
    size.height = height;
    let metadata = <jxl_image::ImageMetadata as BundleDefault<()>>::default_with_context(());
    let ih = jxl_image::ImageHeader { size, metadata };
    let mut fh = <crate::FrameHeader as BundleDefault<&jxl_image::ImageHeader>>::default_with_context(&ih);
    fh.width = width;
    fh.height = height;
    fh.passes.num_passes = num_passes; // U32(1, 2, 3, 4 + u(3)), header.rs:138
    fh
}

/// the standard's section order for a table of `1 + num_lf + 1 + num_groups * num_passes` entries
fn spec_kind(i: usize, n: usize, num_lf: usize, num_groups: usize) -> TocGroupKind {
    if n == 1 {
        TocGroupKind::All
    } else if i == 0 {
        TocGroupKind::LfGlobal
    } else if i <= num_lf {
        TocGroupKind::LfGroup((i - 1) as u32)
    } else if i == 1 + num_lf {
        TocGroupKind::HfGlobal
    } else {
        let j = i - 2 - num_lf;
        TocGroupKind::GroupPass { pass_idx: (j / num_groups) as u32, group_idx: (j % num_groups) as u32 }
    }
}

/// 64 bits of the little-endian bit view starting at bit `pos` (the array is padded so that this never overruns)
fn spec_window(bytes: &[u8], pos: usize) -> u64 {
    let b = pos >> 3;
    let mut w = 0u64;
    let mut k = 0;
    while k < 8 {
        w |= (bytes[b + k] as u64) << (8 * k);
        k += 1;
    }
    w >> (pos & 7)
}

/// one TOC entry: U32(u(10), 1024 + u(14), 17408 + u(22), 4211712 + u(30)) -> (value, bits)
fn spec_toc_entry(bytes: &[u8], pos: usize) -> (u32, usize) {
    let w = spec_window(bytes, pos);
    let (off, n) = match w & 3 {
        0 => (0u32, 10usize),
        1 => (1024, 14),
        2 => (17408, 22),
        _ => (4211712, 30),
    };
    (off + ((w >> 2) & ((1u64 << n) - 1)) as u32, 2 + n)
}

/// bits [pos, next byte boundary) are all zero
fn spec_pad_ok(bytes: &[u8], pos: usize) -> bool {
    let r = pos & 7;
    r == 0 || (bytes[pos >> 3] >> r) == 0
}

// Permuted tables. The 10-bit entropy-coder header after the permuted_toc bit, LSB first:
//   lz77.enabled = 0 | clustering: is_simple = 1, nbits = 00 | use_prefix_code = 1 |
//   IntegerConfig(log_alphabet_size 15): split_exponent = 0000 (msb/lsb_in_token then take 0 bits) | prefix count flag 0: one symbol
// The first CONCRETE_PREFIX bytes are constants (Bitstream::refill looks 8 bytes ahead; symbolic look-ahead bytes would
// make the bit buffer, and with it every branch of Decoder::parse, symbolic). The stubbed read_permutation consumes the
// rest of that prefix plus 0..=9 symbolic bits, so that the TOC entries start at every alignment inside symbolic bytes.
const CODER_HEADER_BITS: usize = 10;
const CODER_HEADER: u16 = 0b0_0000_1_00_1_0;
const CONCRETE_PREFIX: usize = 17;
/// toc_entries 5, 2000, 20000, 5000000, 7 (forms u(10), 1024 + u(14), 17408 + u(22), 4211712 + u(30), u(10)): 96 bits
const CONCRETE_TOC5: [u8; 12] = [0x14, 0x10, 0xf4, 0x20, 0x88, 0x02, 0x30, 0xd0, 0x01, 0x03, 0xc0, 0x01];

/// N = table length, LEN = bytes offered to the parser (enough for the longest encoding), PAD = LEN + 8.
fn parse_contract<const N: usize, const LEN: usize, const PAD: usize>(
    width: u32,
    height: u32,
    num_passes: u32,
    num_lf: usize,
    num_groups: usize,
    permuted: bool,
    fail: bool,
    extra_bits_max: usize,
    concrete_entries: bool,
) {
    assert!(PAD == LEN + 8);
    let fh = toc_header(width, height, num_passes);
    // ---- the bitstream
    let mut bytes: [u8; PAD] = if concrete_entries { [0u8; PAD] } else { kani::any() };
    let mut k = LEN;
    while k < PAD {
        bytes[k] = 0;
        k += 1;
    }
    let extra_bits: usize = kani::any();
    kani::assume(extra_bits <= extra_bits_max);
    let stub_bits = 8 * CONCRETE_PREFIX - 1 - CODER_HEADER_BITS + extra_bits;
    if permuted {
        let head = 1u16 | (CODER_HEADER << 1); // permuted_toc = 1, then the coder header
        let mut prefix = [0u8; CONCRETE_PREFIX];
        prefix[0] = head as u8;
        prefix[1] = (head >> 8) as u8;
        bytes[..CONCRETE_PREFIX].copy_from_slice(&prefix); // memcpy, no loop to unwind
    } else {
        kani::assume(bytes[0] & 1 == 0); // permuted_toc = 0 (also enforced by stub_decoder_unreachable)
    }
    if concrete_entries {
        // quick-tier variant: ONE concrete TOC (all four U32 forms), the permutation stays symbolic
        let start = if permuted { CONCRETE_PREFIX } else { 1 };
        bytes[start..start + 12].copy_from_slice(&CONCRETE_TOC5);
    }
    // ---- the permutation the (stubbed) decoder returns: any permutation of 0..N, or an error
    let perm: [usize; 8] = kani::any();
    let mut i = 0;
    while i < N {
        kani::assume(perm[i] < N);
        let mut j = 0;
        while j < i {
            kani::assume(perm[j] != perm[i]);
            j += 1;
        }
        i += 1;
    }
    unsafe {
        STUB_PERM = perm;
        STUB_FAIL = fail as u64;
        STUB_BITS = stub_bits;
        STUB_CALLS = 0;
    }
    let p = |i: usize| if permuted { perm[i] } else { i };

    // ---- specification: walk the bit view
    let mut pos = if permuted { 1 + CODER_HEADER_BITS + stub_bits } else { 1 };
    let mut spec_ok = !(permuted && fail);
    spec_ok = spec_ok && spec_pad_ok(&bytes, pos);
    pos = (pos + 7) & !7;
    let mut s = [0u32; N]; // toc_entries, bitstream order
    let mut o = [0usize; N]; // start of the k-th section of the bitstream, relative to the end of the TOC
    let mut total = 0usize;
    let mut k = 0;
    while k < N {
        let (v, nb) = spec_toc_entry(&bytes, pos);
        s[k] = v;
        o[k] = total;
        total += v as usize;
        pos += nb;
        k += 1;
    }
    spec_ok = spec_ok && spec_pad_ok(&bytes, pos);
    pos = (pos + 7) & !7;
    assert!(pos <= 8 * LEN); // harness sanity: the offered bytes always suffice
    let base = pos / 8;

    // ---- the real parser
    let mut bitstream = Bitstream::new(&bytes[..LEN]);
    let r = Toc::parse(&mut bitstream, &fh);
    let calls = unsafe { STUB_CALLS };
    assert!(calls == if permuted { 1u64 } else { 0u64 }, "[C14] the permutation is read exactly when permuted_toc is set");
    if permuted {
        assert!(unsafe { STUB_ARGS } == (N as u64, 0u64), "[C14] ReadPermutation(size = number of TOC entries, skip = 0)");
    }
    assert!(r.is_ok() == spec_ok, "[C14] Toc::parse fails exactly for non-zero padding or an invalid permutation (enough data offered)");
    if permuted && fail {
        let reported = matches!(r, Err(crate::Error::Decoder(jxl_coding::Error::InvalidPermutation)));
        assert!(reported, "[C14,C01] an invalid permutation is reported as such");
    }
    // vacuity guards (kept outside every branch: a cover in code that one instantiation never reaches counts as unsatisfied)
    let ok = r.is_ok();
    kani::cover!(fail || ok);
    kani::cover!(fail || concrete_entries || !ok);
    kani::cover!(fail || concrete_entries || (ok && s[0] >= 4211712 && (N == 1 || s[N - 1] < 1024)));
    kani::cover!(fail || !permuted || N == 1 || (ok && perm[0] != 0 && perm[1] == 0));
    if fail {
        return;
    }
    let Ok(toc) = r else { return };

    assert!(bitstream.num_read_bits() == pos, "[C14] parsing stops at the byte boundary after the last TOC entry");
    assert!(toc.num_lf_groups == num_lf && toc.num_groups == num_groups, "[C14] group counts of the frame header");
    assert!(toc.groups.len() == N, "[C14] one table entry per section");
    assert!(toc.is_single_entry() == (N == 1), "[C14] single-section frame");
    assert!(toc.total_size == total && toc.total_byte_size() == total, "[C14] total_size is the sum of all TOC entries");
    if permuted {
        assert!(toc.original_to_bitstream.len() == N && toc.bitstream_to_original.len() == N, "[C14] both maps cover the table");
    } else {
        assert!(toc.original_to_bitstream.is_empty() && toc.bitstream_to_original.is_empty(), "[C14] no maps for an unpermuted table");
    }
    let mut i = 0;
    while i < N {
        let g = toc.groups[i];
        assert!(g.kind == spec_kind(i, N, num_lf, num_groups), "[C14] table is in the standard's section order");
        assert!(g.size == s[p(i)], "[C14] section i has the size of the permutation[i]-th TOC entry");
        assert!(g.offset == base + o[p(i)], "[C14] offset = end of TOC + sizes of the sections stored before it in the bitstream");
        if permuted {
            assert!(toc.original_to_bitstream[i] == perm[i], "[C14] original_to_bitstream is the decoded permutation");
            assert!(toc.bitstream_to_original[perm[i]] == i, "[C14] bitstream_to_original is its inverse");
            assert!(toc.original_to_bitstream[toc.bitstream_to_original[i]] == i, "[C14] the maps are mutually inverse");
        }
        assert!(toc.group_index_bitstream_order(g.kind) == p(i), "[C14] group_index_bitstream_order(kind of section i) = its bitstream position");
        i += 1;
    }
    assert!(toc.bookmark() == base, "[C14] bookmark = offset of the first section of the bitstream = end of the TOC");

    // The asserts above say: `toc` is exactly toc_model(N, permutation, toc_entries, end_of_TOC). toc_accessors_contract
    // below proves iter_bitstream_order / adjust_offsets on every such model value (cloning the parsed Vec inside this
    // harness exhausts CBMC's memory).
}

/// The abstract value of a parsed table: (permuted, P, s, base)  ->  the Toc that parse_contract proves Toc::parse returns.
fn toc_model<const N: usize>(num_lf_groups: usize, num_groups: usize, permuted: bool, perm: &[usize; N], s: &[u32; N], base: usize) -> Toc {
    let mut o = [0usize; N];
    let mut total = 0usize;
    let mut k = 0;
    while k < N {
        o[k] = total;
        total += s[k] as usize;
        k += 1;
    }
    let mut groups = [TocGroup { kind: TocGroupKind::All, offset: 0, size: 0 }; N];
    let mut inverse = [0usize; N];
    let mut i = 0;
    while i < N {
        let pi = if permuted { perm[i] } else { i };
        groups[i] = TocGroup { kind: spec_kind(i, N, num_lf_groups, num_groups), offset: base + o[pi], size: s[pi] };
        inverse[pi] = i;
        i += 1;
    }
    Toc {
        num_lf_groups,
        num_groups,
        groups: groups.to_vec(),
        bitstream_to_original: if permuted { inverse.to_vec() } else { Vec::new() },
        original_to_bitstream: if permuted { perm.to_vec() } else { Vec::new() },
        total_size: total,
    }
}

/// iter_bitstream_order / bookmark / total_byte_size / adjust_offsets on EVERY model value of N entries.
/// `permuted` is concrete per instantiation (measured: with a symbolic flag the iterator's buffer is one of two
/// allocations and CBMC runs out of memory even for one entry; concrete: seconds).
fn toc_accessors_contract<const N: usize>(num_lf_groups: usize, num_groups: usize, permuted: bool) {
    let perm: [usize; N] = kani::any();
    let mut i = 0;
    while i < N {
        kani::assume(perm[i] < N);
        let mut j = 0;
        while j < i {
            kani::assume(perm[j] != perm[i]);
            j += 1;
        }
        i += 1;
    }
    let s: [u32; N] = kani::any();
    let base: usize = kani::any();
    kani::assume(base <= usize::MAX / 4); // a byte position inside the codestream (num_read_bits / 8, toc.rs:213)
    let mut toc = toc_model::<N>(num_lf_groups, num_groups, permuted, &perm, &s, base);
    let total = toc.total_size;
    assert!(toc.total_byte_size() == total, "[C14] total_byte_size reports the sum of the TOC entries");
    assert!(toc.bookmark() == base, "[C14] bookmark = offset of the first section in bitstream order = end of the TOC");

    // iter_bitstream_order: exactly N items; the k-th is the k-th TOC entry, i.e. the section i with P(i) == k
    let mut it = toc.iter_bitstream_order();
    let mut expect = base;
    let mut k = 0;
    while k < N {
        let item = it.next();
        assert!(item.is_some(), "[C14] iter_bitstream_order yields every section");
        let g = item.unwrap();
        assert!(g.size == s[k] && g.offset == expect, "[C14] iter_bitstream_order: k-th item is the k-th TOC entry, contiguous from the end of the TOC");
        let mut i = 0;
        while i < N {
            if (if permuted { perm[i] } else { i }) == k {
                assert!(g.kind == spec_kind(i, N, num_lf_groups, num_groups), "[C14] iter_bitstream_order: k-th item is the section the permutation maps to position k");
            }
            i += 1;
        }
        expect += g.size as usize;
        k += 1;
    }
    assert!(it.next().is_none(), "[C14] iter_bitstream_order yields nothing else");
    assert!(expect == base + total, "[C14] the yielded sizes add up to total_byte_size");
    drop(it);

    // adjust_offsets (Frame::parse, lib.rs:120,215: global_frame_offset = byte position BEFORE the frame header <= end of TOC)
    let gfo: usize = kani::any();
    kani::assume(gfo <= base);
    toc.adjust_offsets(gfo);
    let want = toc_model::<N>(num_lf_groups, num_groups, permuted, &perm, &s, base - gfo);
    let mut i = 0;
    while i < N {
        assert!(toc.groups[i].offset == want.groups[i].offset && toc.groups[i].size == want.groups[i].size && toc.groups[i].kind == want.groups[i].kind,
            "[C14] adjust_offsets rebases every offset by global_frame_offset and changes nothing else");
        if permuted {
            assert!(toc.bitstream_to_original[i] == want.bitstream_to_original[i] && toc.original_to_bitstream[i] == want.original_to_bitstream[i],
                "[C14] adjust_offsets keeps the maps");
        }
        i += 1;
    }
    assert!(toc.groups.len() == N && toc.total_size == total && toc.bookmark() == base - gfo, "[C14] adjust_offsets keeps sizes; bookmark follows");
    kani::cover!(N == 1 || !permuted || (perm[0] != 0 && gfo > 0));
    kani::cover!(N == 1 || s[0] != s[1]);
}

#[kani::proof]
#[kani::unwind(10)]
fn toc_accessors_contract_1() {
    toc_accessors_contract::<1>(1, 1, false);
    toc_accessors_contract::<1>(1, 1, true);
}

#[kani::proof]
#[kani::unwind(10)]
fn toc_accessors_contract_5_plain() {
    toc_accessors_contract::<5>(1, 2, false);
}

#[kani::proof]
#[kani::unwind(10)]
fn toc_accessors_contract_5_permuted() {
    toc_accessors_contract::<5>(1, 2, true);
}

#[kani::proof]
#[kani::unwind(10)]
fn toc_accessors_contract_7_permuted() {
    toc_accessors_contract::<7>(1, 2, true);
}

// ---- unpermuted tables: every byte symbolic (assumptions a, d)
macro_rules! plain_harness {
    ($name:ident, $call:expr) => {
        #[kani::proof]
        #[kani::unwind(10)]
        #[kani::stub(jxl_bitstream::Bitstream::read_bits, stub_read_bits)]
        #[kani::stub(jxl_coding::Decoder::parse, stub_decoder_unreachable)]
        fn $name() {
            $call;
        }
    };
}
// 1x1 frame, one pass: num_groups == 1 && num_passes == 1 -> ONE entry (toc.rs:184)
plain_harness!(parse_single_plain_contract, parse_contract::<1, 8, 16>(1, 1, 1, 1, 1, false, false, 0, false));
// 1x1 frame, two passes: 1 + 1 + 1 + 1 * 2 = 5 entries
plain_harness!(parse_two_passes_plain_contract, parse_contract::<5, 24, 32>(1, 1, 2, 1, 1, false, false, 0, false));
plain_harness!(parse_two_passes_plain_concrete_contract, parse_contract::<5, 24, 32>(1, 1, 2, 1, 1, false, false, 0, true));
// 257x1 frame (group_dim 256: header.rs:31 default group_size_shift 1), one pass: 2 groups -> 1 + 1 + 1 + 2 = 5 entries
plain_harness!(parse_two_groups_plain_contract, parse_contract::<5, 24, 32>(257, 1, 1, 1, 2, false, false, 0, false));

// ---- permuted tables (assumptions a, b, c)
macro_rules! permuted_harness {
    ($name:ident, $stub:ident, $call:expr) => {
        #[kani::proof]
        #[kani::unwind(10)]
        #[kani::stub(jxl_bitstream::Bitstream::read_bits, stub_read_bits)]
        #[kani::stub(jxl_coding::read_permutation, $stub)]
        #[kani::stub(jxl_coding::read_clusters, stub_read_clusters)]
        fn $name() {
            $call;
        }
    };
}
// the stubbed read_permutation consumes 125..=134 bits for the one-entry table (every alignment of the first padding),
// exactly 125 (TOC entries start at byte 17, no padding bits) for the longer tables
permuted_harness!(parse_single_permuted_contract, stub_read_permutation_1, parse_contract::<1, 24, 32>(1, 1, 1, 1, 1, true, false, 9, false));
permuted_harness!(parse_two_passes_permuted_contract, stub_read_permutation_5, parse_contract::<5, 40, 48>(1, 1, 2, 1, 1, true, false, 0, false));
permuted_harness!(parse_two_passes_permuted_concrete_contract, stub_read_permutation_5, parse_contract::<5, 40, 48>(1, 1, 2, 1, 1, true, false, 0, true));
permuted_harness!(parse_two_groups_permuted_concrete_contract, stub_read_permutation_5, parse_contract::<5, 40, 48>(257, 1, 1, 1, 2, true, false, 0, true));
// read_permutation fails: the error is passed on
permuted_harness!(parse_permutation_error_contract, stub_read_permutation_5, parse_contract::<5, 40, 48>(1, 1, 2, 1, 1, true, true, 0, false));
