// Executable specification of per-sample blending (ISO/IEC 18181-1, frame header semantics of
// BlendingInfo.mode / clamp / alpha_channel, and the patch blend modes of the Patches dictionary).
//
// Notation of the standard: old_sample / old_alpha are the sample of the canvas (the reference frame named
// by `source`, or the frame the patch is drawn onto) and its alpha; new_sample / new_alpha are the sample of
// the current frame (or of the patch) and its alpha. The alpha values are the samples of the extra channel
// `alpha_channel`; "premultiplied" is that extra channel's alpha_associated flag.
//
//   kReplace   sample = new_sample
//   kAdd       sample = old_sample + new_sample
//   kMul       sample = old_sample * new_sample                   (new_sample clamped to [0,1] first if clamp)
//   kBlend     colour / non-alpha extra channels:
//                premultiplied:  sample = new_sample + old_sample * (1 - new_alpha)
//                otherwise:      sample = (new_alpha * new_sample + old_alpha * old_sample * (1 - new_alpha)) / alpha
//              the alpha channel itself:  alpha = old_alpha + new_alpha * (1 - old_alpha)
//              (new_alpha clamped to [0,1] first if clamp)
//   kMulAdd    sample = old_sample + new_alpha * new_sample        (new_alpha clamped first if clamp);
//              the alpha channel itself keeps old_alpha
//   patches:   kNone keeps old; kReplace/kAdd/kMul as above; kBlendAbove = kBlend, kMulAddAbove = kMulAdd;
//              kBlendBelow / kMulAddBelow = the same formulas with the roles of old and new exchanged (the patch
//              goes *below* the canvas), i.e. `swapped`. For kMulAddBelow the alpha channel keeps the alpha
//              of the lower layer, which now is the patch: it becomes new_alpha.
//   If the image has no extra channels there is no alpha: kBlend degenerates to kReplace and kMulAdd to kAdd.
//   A canvas that does not exist yet (no reference frame) is all zeros, including its alpha.
//
// Floating point: the standard defines the result as a real-number formula; the decoder computes in binary32.
// Every formula above is evaluated literally, left to right, in binary32 -- EXCEPT the straight-alpha kBlend
// quotient, where rounding forces the order of the reference decoder (libjxl, PerformAlphaBlending) that the
// conformance tolerances are defined against:
//       alpha  = 1 - (1 - new_alpha) * (1 - old_alpha)          (algebraically old_alpha + new_alpha * (1 - old_alpha))
//       sample = (new_alpha * new_sample + old_alpha * old_sample * (1 - new_alpha)) * (alpha > 0 ? 1 / alpha : 0)
// i.e. one reciprocal and a multiplication instead of a division, and 0 for a fully transparent result
// (the standard leaves 0/0 open). The harnesses additionally pin this formula to the standard's at the exact
// points alpha in {0, 1} where no rounding occurs.
// binary32 `+` and `*` are commutative bit for bit, so operand order inside one operation is immaterial.
#![allow(dead_code)]

/// Abstract blend operation applied to one channel (what the standard's tables select per channel).
#[derive(Clone, Copy, PartialEq, Eq, Debug)]
pub(crate) enum SpecOp {
    /// keep old_sample
    Keep,
    Replace,
    Add,
    Mul,
    /// kBlend on a channel other than the alpha channel
    Blend,
    /// kBlend on the alpha channel itself
    BlendAlpha,
    /// kMulAdd on a channel other than the alpha channel
    MulAdd,
}

/// Everything the standard's mode tables determine for one channel.
#[derive(Clone, Copy, PartialEq, Eq, Debug)]
pub(crate) struct SpecChannelBlend {
    pub op: SpecOp,
    /// clamp applies (to new_sample for kMul, to the upper layer's alpha otherwise)
    pub clamp: bool,
    /// roles of old and new exchanged (*Below patch modes)
    pub swapped: bool,
    /// the alpha extra channel is premultiplied (alpha_associated)
    pub premultiplied: bool,
    /// the operation reads alpha samples
    pub uses_alpha: bool,
}

/// Frame blending (BlendingInfo.mode: 0 kReplace, 1 kAdd, 2 kBlend, 3 kMulAdd, 4 kMul) for channel
/// `channel_idx` of the list colour channels ++ extra channels. `alpha_channel` indexes the extra channels.
/// `alpha_associated`: Some(flag) if the image has extra channels (then alpha_channel names an alpha channel,
/// validated by Frame::parse) and the mode uses alpha, None if there is no alpha to use.
pub(crate) fn spec_frame_channel_blend(
    mode: u32,
    clamp: bool,
    alpha_channel: usize,
    channel_idx: usize,
    color_channels: usize,
    alpha_associated: Option<bool>,
) -> SpecChannelBlend {
    let is_alpha_itself = channel_idx == color_channels + alpha_channel;
    let premultiplied = alpha_associated.unwrap_or(false);
    let plain = |op| SpecChannelBlend { op, clamp: false, swapped: false, premultiplied: false, uses_alpha: false };
    match mode {
        0 => plain(SpecOp::Replace),
        1 => plain(SpecOp::Add),
        4 => SpecChannelBlend { op: SpecOp::Mul, clamp, swapped: false, premultiplied: false, uses_alpha: false },
        2 => {
            if is_alpha_itself {
                SpecChannelBlend { op: SpecOp::BlendAlpha, clamp, swapped: false, premultiplied: false, uses_alpha: false }
            } else if alpha_associated.is_none() {
                plain(SpecOp::Replace)
            } else {
                SpecChannelBlend { op: SpecOp::Blend, clamp, swapped: false, premultiplied, uses_alpha: true }
            }
        }
        _ => {
            // 3: kMulAdd
            if is_alpha_itself {
                plain(SpecOp::Keep)
            } else if alpha_associated.is_none() {
                plain(SpecOp::Add)
            } else {
                SpecChannelBlend { op: SpecOp::MulAdd, clamp, swapped: false, premultiplied: false, uses_alpha: true }
            }
        }
    }
}

/// Patch blending (PatchBlendMode: 0 kNone, 1 kReplace, 2 kAdd, 3 kMul, 4 kBlendAbove, 5 kBlendBelow,
/// 6 kMulAddAbove, 7 kMulAddBelow).
pub(crate) fn spec_patch_channel_blend(
    mode: u32,
    clamp: bool,
    alpha_channel: usize,
    channel_idx: usize,
    color_channels: usize,
    alpha_associated: Option<bool>,
) -> SpecChannelBlend {
    let is_alpha_itself = channel_idx == color_channels + alpha_channel;
    let premultiplied = alpha_associated.unwrap_or(false);
    let plain = |op| SpecChannelBlend { op, clamp: false, swapped: false, premultiplied: false, uses_alpha: false };
    match mode {
        0 => plain(SpecOp::Keep),
        1 => plain(SpecOp::Replace),
        2 => plain(SpecOp::Add),
        3 => SpecChannelBlend { op: SpecOp::Mul, clamp, swapped: false, premultiplied: false, uses_alpha: false },
        4 | 5 => {
            let swapped = mode == 5;
            if is_alpha_itself {
                SpecChannelBlend { op: SpecOp::BlendAlpha, clamp, swapped, premultiplied: false, uses_alpha: false }
            } else if alpha_associated.is_none() {
                plain(SpecOp::Replace)
            } else {
                SpecChannelBlend { op: SpecOp::Blend, clamp, swapped, premultiplied, uses_alpha: true }
            }
        }
        _ => {
            let swapped = mode == 7;
            if is_alpha_itself {
                // the alpha of the lower layer survives: the canvas for Above, the patch for Below
                plain(if swapped { SpecOp::Replace } else { SpecOp::Keep })
            } else if alpha_associated.is_none() {
                plain(SpecOp::Add)
            } else {
                SpecChannelBlend { op: SpecOp::MulAdd, clamp, swapped, premultiplied: false, uses_alpha: true }
            }
        }
    }
}

/// "clamped to [0, 1]": 0 below 0, 1 above 1, the value itself otherwise -- which is `f32::clamp(0.0, 1.0)`
/// (written with the library function so that CBMC sees the same operand expression on both sides of a
/// bit-exact comparison; `spec_clamp01_is_clamp` in the blend harness pins it to the case distinction).
pub(crate) fn spec_clamp01(v: f32) -> f32 {
    v.clamp(0.0, 1.0)
}

/// One output sample. `old_alpha` / `new_alpha` are ignored unless `b.uses_alpha`.
pub(crate) fn spec_blend_pixel(b: SpecChannelBlend, old_sample: f32, old_alpha: f32, new_sample: f32, new_alpha: f32) -> f32 {
    // lower layer (bg) and upper layer (fg)
    let (bg, bga, fg, fga) = if b.swapped { (new_sample, new_alpha, old_sample, old_alpha) } else { (old_sample, old_alpha, new_sample, new_alpha) };
    match b.op {
        SpecOp::Keep => old_sample,
        SpecOp::Replace => new_sample,
        SpecOp::Add => old_sample + new_sample,
        SpecOp::Mul => old_sample * (if b.clamp { spec_clamp01(new_sample) } else { new_sample }),
        SpecOp::BlendAlpha => {
            // the channel is its own alpha: alpha = lower + upper * (1 - lower)
            let upper = if b.clamp { spec_clamp01(fg) } else { fg };
            bg + upper * (1.0 - bg)
        }
        SpecOp::MulAdd => {
            let a = if b.clamp { spec_clamp01(fga) } else { fga };
            bg + a * fg
        }
        SpecOp::Blend => {
            let a = if b.clamp { spec_clamp01(fga) } else { fga };
            if b.premultiplied {
                fg + bg * (1.0 - a)
            } else {
                // reference-decoder operation order, see the header of this file
                let alpha = 1.0 - (1.0 - a) * (1.0 - bga);
                let recip = if alpha > 0.0 { 1.0 / alpha } else { 0.0 };
                (a * fg + bga * bg * (1.0 - a)) * recip
            }
        }
    }
}

/// Bit-exact equality of two binary32 results; all NaNs are identified (payloads are not specified).
pub(crate) fn same_f32(a: f32, b: f32) -> bool {
    a.to_bits() == b.to_bits() || (a.is_nan() && b.is_nan())
}
