// Executable specification of the `orientation` field of ImageMetadata (ISO/IEC 18181-1, image
// metadata; same numbering and meaning as EXIF / TIFF tag 274).
//
// `spec_orientation(o, W, H, x, y)` is where the *stored* sample (x, y) of a W x H (stored,
// un-oriented) image is *displayed*:
//   1 identity | 2 flip horizontally | 3 rotate 180 | 4 flip vertically
//   5 transpose | 6 rotate 90 clockwise | 7 anti-transpose | 8 rotate 90 counter-clockwise
// (EXIF: 6 = "0th row is the visual right-hand side, 0th column is the visual top";
//        8 = "0th row is the visual left-hand side, 0th column is the visual bottom").
// Mathematical integers are modelled with i64 (all arguments are < 2^32 in magnitude).
// Included with `#[path = "@SPEC@/orientation.rs"] mod ospec;` by every harness module that needs it,
// so that the three copies of the map in the code base are all compared with ONE definition.
#![allow(dead_code)]

pub(crate) fn spec_orientation(o: u32, w: i64, h: i64, x: i64, y: i64) -> (i64, i64) {
    match o {
        1 => (x, y),
        2 => (w - 1 - x, y),
        3 => (w - 1 - x, h - 1 - y),
        4 => (x, h - 1 - y),
        5 => (y, x),
        6 => (h - 1 - y, x),
        7 => (h - 1 - y, w - 1 - x),
        _ => (y, w - 1 - x), // 8
    }
}

/// Displayed (oriented) dimensions of a stored W x H image.
pub(crate) fn spec_oriented_dims(o: u32, w: i64, h: i64) -> (i64, i64) {
    if o <= 4 { (w, h) } else { (h, w) }
}

pub(crate) fn spec_inside(w: i64, h: i64, x: i64, y: i64) -> bool {
    0 <= x && x < w && 0 <= y && y < h
}
