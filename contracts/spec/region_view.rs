// Abstract view of jxl_render::Region shared by the harness modules of crates/jxl-render (region.rs, util.rs).
// A Region denotes the point set
//        pts(r) = { (x, y) | left <= x < left + width  and  top <= y < top + height }      (mathematical integers)
// modelled with i64 (fields are i32 / u32, so nothing here can overflow).
// Included with `#[path = "@SPEC@/region_view.rs"] mod rview;` (only inside jxl-render: `crate::Region`).
#![allow(dead_code)]
use crate::Region;

pub(crate) fn has(r: Region, x: i64, y: i64) -> bool {
    (r.left as i64) <= x && x < r.left as i64 + r.width as i64 && (r.top as i64) <= y && y < r.top as i64 + r.height as i64
}
pub(crate) fn l(r: Region) -> i64 { r.left as i64 }
pub(crate) fn t(r: Region) -> i64 { r.top as i64 }
pub(crate) fn rt(r: Region) -> i64 { r.left as i64 + r.width as i64 }
pub(crate) fn bt(r: Region) -> i64 { r.top as i64 + r.height as i64 }

pub(crate) fn any_region() -> Region {
    Region { left: kani::any(), top: kani::any(), width: kani::any(), height: kani::any() }
}
/// The right / bottom edge is representable as i32: true of every region the renderer builds
/// (|left| < 2^31 - 2^30 - 2^13 and width <= 2^30 + 2^13 there). `right()`/`bottom()` saturate otherwise.
pub(crate) fn wf(r: Region) -> bool {
    rt(r) <= i32::MAX as i64 && bt(r) <= i32::MAX as i64
}
pub(crate) fn any_wf_region() -> Region {
    let r = any_region();
    kani::assume(wf(r));
    r
}
/// an unconstrained point with i32 coordinates (every point of every Region is one)
pub(crate) fn any_point() -> (i64, i64) {
    let x: i32 = kani::any();
    let y: i32 = kani::any();
    (x as i64, y as i64)
}
/// floor(v / 2^f) and ceil(v / 2^f) on mathematical integers
pub(crate) fn floor_shift(v: i64, f: u32) -> i64 { v >> f }
pub(crate) fn ceil_shift(v: i64, f: u32) -> i64 { (v + (1i64 << f) - 1) >> f }
/// a superset b as point sets, for rectangles given by their extents (b may be empty)
pub(crate) fn extent_covers(a: Region, bl: i64, bt_: i64, br: i64, bb: i64) -> bool {
    l(a) <= bl && t(a) <= bt_ && rt(a) >= br && bt(a) >= bb
}

/// ImageHeader with the given stored size and orientation, everything else default (never parsed: CBMC limit).
pub(crate) fn header_with(width: u32, height: u32, orientation: u32) -> jxl_image::ImageHeader {
    use jxl_oxide_common::BundleDefault;
    let mut size = <jxl_image::SizeHeader as BundleDefault<()>>::default_with_context(());
    size.width = width;
    size.height = height;
    let mut metadata = <jxl_image::ImageMetadata as BundleDefault<()>>::default_with_context(());
    metadata.orientation = orientation;
    jxl_image::ImageHeader { size, metadata }
}
