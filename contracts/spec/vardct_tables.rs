// Shared executable spec tables for jxl-vardct (included by the dct_select.rs / hf_pass.rs / dequant.rs harness modules).
// Sources: ISO/IEC 18181-1 Table "DctSelect"; libjxl lib/jxl/ac_strategy.h (AcStrategy::Type numbering,
// covered_blocks_x / covered_blocks_y kLut; DCTAxB = A rows by B columns), lib/jxl/quant_weights.h (kQuantTable),
// lib/jxl/coeff_order_fwd.h (kStrategyOrder).
#![allow(dead_code)]
use crate::TransformType::{self, *};

/// 18181-1 Table DctSelect / libjxl AcStrategy::Type: the variant with number v
pub const SPEC_VARIANT: [TransformType; 27] = [
    Dct8, Hornuss, Dct2, Dct4, Dct16, Dct32, Dct16x8, Dct8x16, Dct32x8, Dct8x32, Dct32x16, Dct16x32, Dct4x8, Dct8x4,
    Afv0, Afv1, Afv2, Afv3, Dct64, Dct64x32, Dct32x64, Dct128, Dct128x64, Dct64x128, Dct256, Dct256x128, Dct128x256,
];
/// covered_blocks_x (width in 8x8 blocks)
pub const SPEC_BX: [u32; 27] = [1, 1, 1, 1, 2, 4, 1, 2, 1, 4, 2, 4, 1, 1, 1, 1, 1, 1, 8, 4, 8, 16, 8, 16, 32, 16, 32];
/// covered_blocks_y (height in 8x8 blocks)
pub const SPEC_BY: [u32; 27] = [1, 1, 1, 1, 2, 4, 2, 1, 4, 1, 4, 2, 1, 1, 1, 1, 1, 1, 8, 8, 4, 16, 16, 8, 32, 32, 16];
/// kQuantTable
pub const SPEC_QIDX: [u32; 27] = [0, 1, 2, 3, 4, 5, 6, 6, 7, 7, 8, 8, 9, 9, 10, 10, 10, 10, 11, 12, 12, 13, 14, 14, 15, 16, 16];
/// kStrategyOrder
pub const SPEC_ORDER: [u32; 27] = [0, 1, 1, 1, 2, 3, 4, 4, 5, 5, 6, 6, 1, 1, 1, 1, 1, 1, 7, 8, 8, 9, 10, 10, 11, 12, 12];
/// transforms whose 8x8 coefficient block has a layout of its own (never transposed)
pub const SPEC_SPECIAL_8X8: [bool; 27] = [
    false, true, true, true, false, false, false, false, false, false, false, false, true, true, true, true, true, true,
    false, false, false, false, false, false, false, false, false,
];
