// Executable specification of the JPEG entropy-coded bit stream (ITU-T T.81 | ISO/IEC 10918-1:
// F.1.2.1/F.1.2.2 bit order of codes and additional bits, F.1.2.3 byte stuffing, B.1.1.5).
// An entropy-coded segment is a SEQUENCE OF BITS.
//   (S1) packing:  bit k of the sequence is bit (7 - k % 8) of raw byte k / 8 (most significant bit first);
//   (S2) stuffing: the byte stream is the raw bytes in order with one 0x00 inserted after every raw byte
//                  that equals 0xFF, and nothing else;
//   (S3) a code word of `len` bits left-aligned in a u64 contributes bits 63, 62, .. (64 - len) in that
//        order; a value of `len` additional bits contributes bits len-1, .., 0 of the value in that order.
// Included with `#[path = "@SPEC@/jpeg_bits.rs"] mod jpeg_bits;` by the jxl-jbr harness modules
// (bit_writer.rs, scan.rs) so that both are compared with ONE definition.
#![allow(dead_code)]

/// (S2) backwards: is `bytes[from..]` exactly the stuffed form of `n` (<= N) raw bytes? If so, return them.
pub(crate) fn destuff<const N: usize>(bytes: &[u8], from: usize, n: usize) -> Option<[u8; N]> {
    let mut raw = [0u8; N];
    let mut i = from;
    let mut j = 0;
    while j < N {
        if j < n {
            if i >= bytes.len() {
                return None;
            }
            let b = bytes[i];
            i += 1;
            raw[j] = b;
            if b == 0xff {
                if i >= bytes.len() || bytes[i] != 0x00 {
                    return None;
                }
                i += 1;
            }
        }
        j += 1;
    }
    if i != bytes.len() {
        return None;
    }
    Some(raw)
}

/// (S1): bit k of the bit sequence carried by raw bytes
pub(crate) fn bit_of_bytes(raw: &[u8], k: usize) -> u8 {
    (raw[k / 8] >> (7 - k % 8)) & 1
}

/// (S3) code word: bit k (k < len) of a left-aligned word
pub(crate) fn bit_of_code(word: u64, k: usize) -> u8 {
    ((word >> (63 - k)) & 1) as u8
}

/// (S3) additional bits: bit k (k < len) of a `len`-bit value
pub(crate) fn bit_of_value(v: u64, len: usize, k: usize) -> u8 {
    ((v >> (len - 1 - k)) & 1) as u8
}

