//! No-op `tracing` for verification scratch workspaces.
//! Events and spans expand to nothing and do NOT evaluate their arguments: the behaviour of
//! real `tracing` when no subscriber enables the level.

#[derive(Clone, Copy, Debug, PartialEq, Eq, PartialOrd, Ord, Hash)]
pub struct Level(u8);
impl Level {
    pub const TRACE: Level = Level(0);
    pub const DEBUG: Level = Level(1);
    pub const INFO: Level = Level(2);
    pub const WARN: Level = Level(3);
    pub const ERROR: Level = Level(4);
}

pub mod level_filters {
    #[derive(Clone, Copy, Debug, PartialEq, Eq, PartialOrd, Ord, Hash)]
    pub struct LevelFilter(u8);
    impl LevelFilter {
        pub const OFF: LevelFilter = LevelFilter(5);
        pub const TRACE: LevelFilter = LevelFilter(0);
        pub const DEBUG: LevelFilter = LevelFilter(1);
        pub const INFO: LevelFilter = LevelFilter(2);
        pub const WARN: LevelFilter = LevelFilter(3);
        pub const ERROR: LevelFilter = LevelFilter(4);
    }
}

#[derive(Clone, Debug, Default)]
pub struct Span;
pub mod span {
    pub use super::Span;
    #[derive(Debug, Default)]
    pub struct Entered<'a>(pub(crate) core::marker::PhantomData<&'a ()>);
    #[derive(Debug, Default)]
    pub struct EnteredSpan;
}
impl Span {
    #[inline(always)]
    pub fn none() -> Span { Span }
    #[inline(always)]
    pub fn current() -> Span { Span }
    #[inline(always)]
    pub fn enter(&self) -> span::Entered<'_> { span::Entered(core::marker::PhantomData) }
    #[inline(always)]
    pub fn entered(self) -> span::EnteredSpan { span::EnteredSpan }
    #[inline(always)]
    pub fn in_scope<F: FnOnce() -> T, T>(&self, f: F) -> T { f() }
    #[inline(always)]
    pub fn record<Q: ?Sized, V: ?Sized>(&self, _field: &Q, _value: &V) -> &Self { self }
    #[inline(always)]
    pub fn is_disabled(&self) -> bool { true }
}

#[macro_export] macro_rules! trace { ($($t:tt)*) => { () }; }
#[macro_export] macro_rules! debug { ($($t:tt)*) => { () }; }
#[macro_export] macro_rules! info { ($($t:tt)*) => { () }; }
#[macro_export] macro_rules! warn { ($($t:tt)*) => { () }; }
#[macro_export] macro_rules! error { ($($t:tt)*) => { () }; }
#[macro_export] macro_rules! event { ($($t:tt)*) => { () }; }
#[macro_export] macro_rules! span { ($($t:tt)*) => { $crate::Span }; }
#[macro_export] macro_rules! trace_span { ($($t:tt)*) => { $crate::Span }; }
#[macro_export] macro_rules! debug_span { ($($t:tt)*) => { $crate::Span }; }
#[macro_export] macro_rules! info_span { ($($t:tt)*) => { $crate::Span }; }
#[macro_export] macro_rules! warn_span { ($($t:tt)*) => { $crate::Span }; }
#[macro_export] macro_rules! error_span { ($($t:tt)*) => { $crate::Span }; }
#[macro_export] macro_rules! enabled { ($($t:tt)*) => { false }; }
