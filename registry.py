"""Obligation table: which contracts are checked for which property, by which back end.

kind:  "complete"        loop-free / fixed-trip-count harness over full-domain symbolic inputs: a proof
       "bounded:<bound>" complete over values inside the stated bound on an input length / geometry
       "verus"           unbounded Verus proof on the mechanically extracted function
"""

OBLIGATIONS = []
CANARIES = {}
PROPERTIES = {}


def K(id, props, crate, anchor, module, harness, kind, fns, contract="", tier="quick", timeout=300,
      attrs=None, quick_props=None, zflags=None, unwindset=None, rss_gb=None, kani_args=None, cbmc_args=None):
    """unwindset: [(regex on the demangled function containing a loop, bound)] -- per-loop bounds added to the harness'
    #[kani::unwind(n)] (looked up in the goto binary at run time, see tools/check.py discover_unwindset).
    kani_args: extra `cargo kani` options for the invocation that runs this harness (e.g. "--no-assertion-reach-checks").
    cbmc_args: extra CBMC options (passed after --cbmc-args; the harness then runs in the separate "special" invocation that
    also serves unwindset rows), e.g. ["--max-field-sensitivity-array-size", "512"]: analysis precision only, no effect on soundness."""
    OBLIGATIONS.append(dict(id=id, props=props, crate=crate, anchor=anchor, module=module, harness=harness,
                            kind=kind, fns=fns, contract=contract, tier=tier, timeout=timeout, backend="kani",
                            attrs=attrs or [], quick_props=quick_props, zflags=zflags or [], unwindset=unwindset or [], rss_gb=rss_gb,
                            kani_args=kani_args or [], cbmc_args=cbmc_args or []))


def V(id, props, anchor, fns, spec, contract="", tier="quick", timeout=120, quick_props=None):
    OBLIGATIONS.append(dict(id=id, props=props, anchor=anchor, fns=fns, spec=spec, kind="verus", backend="verus",
                            contract=contract, tier=tier, timeout=timeout, quick_props=quick_props, crate=None))


STANDING_ASSUMPTIONS = [
    "rustc / kani-compiler 0.68 / CBMC 6.11 / CaDiCaL / Verus 0.2026.09.13 / Z3 are sound",
    "Kani's models of std and alloc (allocator never fails, Vec, Mutex uncontended) are faithful",
    "64-bit little-endian target (usize = u64)",
    "`tracing` is replaced by a no-op stub: events/spans do not evaluate their arguments (behaviour of real tracing with no subscriber)",
    "every harness is single-threaded; atomics behave sequentially consistently",
    "harness preconditions (kani::assume) state the type invariants / header ranges established by code outside the core (listed per obligation)",
    "Kani machine arithmetic is bit-precise; Verus rows use mathematical int with explicit range requires",
]

# ------------------------------------------------------------------------------------------------
# jxl-bitstream
# ------------------------------------------------------------------------------------------------
BS = "crates/jxl-bitstream/src/bitstream.rs"
BSM = "kani/jxl-bitstream/bitstream.rs"
CANARIES["jxl-bitstream"] = dict(anchor=BS, module=BSM, harness="canary", kind="complete", fns=[], timeout=60)

K("bs.refill", ["C01", "C02", "C14", "C11"], "jxl-bitstream", BS, BSM, "refill_contract", "complete",
  ["Bitstream::refill", "Bitstream::refill_slow"],
  "requires wf(self), bytes.len() <= 17 (covers both the 8-byte unsafe fast path and the slow path); "
  "ensures wf, abstract bit view unchanged, >= 56 bits buffered unless input exhausted, no invalid pointer")
K("bs.read_bits", ["C01", "C02", "C04", "C11", "C14"], "jxl-bitstream", BS, BSM, "read_bits_contract",
  "bounded:remaining bytes <= 12 (all buffer states, all n <= 32)",
  ["Bitstream::read_bits", "Bitstream::peek_bits", "Bitstream::consume_bits", "Bitstream::refill"],
  "ensures Ok(v) => v == u(n) of the view, position += n, view dropped n bits; Err => unexpected_eof, nothing consumed, n > available")
K("bs.consume_bits", ["C01", "C11", "C14"], "jxl-bitstream", BS, BSM, "consume_bits_contract", "complete",
  ["Bitstream::consume_bits"], "Ok iff n <= buffered bits; Err is unexpected-eof and changes nothing")
K("bs.consume_bits_const", ["C01", "C11", "C14"], "jxl-bitstream", BS, BSM, "consume_bits_const_contract", "complete",
  ["Bitstream::consume_bits_const", "Bitstream::peek_bits_prefilled_const"],
  "N in {1, 16, 32}: Ok iff N <= buffered bits, position += N, view dropped N bits; Err is unexpected-eof and changes nothing (position included)")
K("bs.skip_bits", ["C01", "C02", "C11", "C14"], "jxl-bitstream", BS, BSM, "skip_bits_contract",
  "bounded:remaining bytes <= 20 (all n)", ["Bitstream::skip_bits"],
  "Ok iff n <= available; position += n; view dropped n bits; Err is unexpected-eof")
K("bs.zero_pad", ["C01", "C11", "C14"], "jxl-bitstream", BS, BSM, "zero_pad_contract",
  "bounded:remaining bytes <= 9", ["Bitstream::zero_pad_to_byte"],
  "position rounded up to a byte; NonZeroPadding iff a padding bit is set")
K("bs.read_u32", ["C01", "C11", "C14"], "jxl-bitstream", BS, BSM, "read_u32_contract",
  "bounded:remaining bytes <= 12 (all selectors, all offsets, all n <= 32)", ["Bitstream::read_u32"],
  "value = constant | offset + u(n) of the distribution chosen by u(2); consumes 2 + n bits")
K("bs.read_u64", ["C01", "C11", "C14"], "jxl-bitstream", BS, BSM, "read_u64_contract",
  "bounded:buffer <= 11 bytes (longest U64 is 73 bits), start offset 0..7", ["Bitstream::read_u64"],
  "value and bit count equal the standard's U64 decoding procedure on the abstract bit view, all four forms", timeout=900)
K("bs.read_bool", ["C01", "C11", "C14"], "jxl-bitstream", BS, BSM, "read_bool_contract",
  "bounded:remaining bytes <= 9", ["Bitstream::read_bool"], "Bool = u(1)")
K("bs.read_f16", ["C01", "C11", "C14"], "jxl-bitstream", BS, BSM, "read_f16_contract",
  "bounded:remaining bytes <= 9 (all 65536 codes)", ["Bitstream::read_f16_as_f32"],
  "bit-exact f32 value of every finite binary16 code, InvalidFloat for NaN/Inf, 16 bits consumed")
K("bs.read_enum", ["C01", "C11", "C14"], "jxl-bitstream", BS, BSM, "read_enum_contract",
  "bounded:remaining bytes <= 9", ["Bitstream::read_enum"],
  "Enum = U32(0,1,2+u(4),18+u(6)); InvalidEnum exactly for values the target type rejects")
K("bs.prefix_u64", ["C11"], "jxl-bitstream", BS, BSM, "prefix_lemma_u64",
  "bounded:buffer <= 10 bytes, every cut", ["Bitstream::read_u64"],
  "relational: reading from any prefix either equals reading from the whole or is unexpected-eof", timeout=900)

LIB = "crates/jxl-bitstream/src/lib.rs"
LIBM = "kani/jxl-bitstream/lib.rs"
_unpack_attrs = [
    dict(file=LIB, before="pub fn unpack_signed(x: u32) -> i32 {", attrs=[
        "kani::ensures(|r: &i32| if x & 1 == 0 { *r >= 0 && (*r as i64) == (x as i64) / 2 } else { *r < 0 && (*r as i64) == -((x as i64) + 1) / 2 })"]),
    dict(file=LIB, before="pub fn unpack_signed_u64(x: u64) -> i64 {", attrs=[
        "kani::ensures(|r: &i64| if x & 1 == 0 { *r >= 0 && (*r as i128) == (x as i128) / 2 } else { *r < 0 && (*r as i128) == -((x as i128) + 1) / 2 })"]),
]
K("bs.unpack_signed", ["C01", "C04", "C14"], "jxl-bitstream", LIB, LIBM, "unpack_signed_contract", "complete",
  ["unpack_signed"], "ensures: even x -> x/2, odd x -> -(x+1)/2 (kani::ensures on the real fn, proof_for_contract)", attrs=_unpack_attrs)
K("bs.unpack_signed_u64", ["C01", "C04", "C14"], "jxl-bitstream", LIB, LIBM, "unpack_signed_u64_contract", "complete",
  ["unpack_signed_u64"], "same contract, 64-bit", attrs=_unpack_attrs)
K("bs.unpack_inverse", ["C04", "C14"], "jxl-bitstream", LIB, LIBM, "unpack_signed_inverts_pack", "complete",
  ["unpack_signed", "unpack_signed_u64"], "UnpackSigned o PackSigned == id over all of i32 / i64, and bijective", attrs=_unpack_attrs)

# fragments written per crate
import glob as _glob, os as _os
for _f in sorted(_glob.glob(_os.path.join(_os.path.dirname(_os.path.abspath(__file__)), "registry.d", "*.py"))):
    exec(compile(open(_f).read(), _f, "exec"))

